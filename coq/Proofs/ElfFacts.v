(* Readable consequences of the loader reference (C11, C12): what the point-wise expected image and the
   environment formulas of Spec/ElfSpec.v say about segments, gaps, the GOT and the argument block. *)
From Coq Require Import Bool ZArith Lia List.
From K Require Import Lib.Types Lib.Bits Model.Machine Model.Bus Model.Elf Spec.ElfSpec Proofs.ElfProofs Proofs.ElfLoad.
Import ListNotations.
Open Scope bool_scope. Open Scope Z_scope.
Ltac Zify.zify_post_hook ::= Z.div_mod_to_equations.

(* ---- non-overlapping segments: the byte of the one covering segment ---- *)
Definition apart (p q : phdr) : Prop :=
  is_load p = true -> is_load q = true -> p_vaddr p + p_memsz p <= p_vaddr q \/ p_vaddr q + p_memsz q <= p_vaddr p.

Lemma disjoint_pairs : forall l, disjoint_loads l = true ->
  forall l1 p l2 q l3, l = l1 ++ p :: l2 ++ q :: l3 -> apart p q.
Proof.
  induction l as [|x l IH]; intros H l1 p l2 q l3 Heq; [destruct l1; discriminate|].
  cbn in H. apply andb_true_iff in H. destruct H as [Hx Hl].
  destruct l1 as [|y l1]; cbn [app] in Heq; injection Heq as -> ->.
  - rewrite forallb_forall in Hx. assert (Hq0 : In q (l2 ++ q :: l3)) by (apply in_or_app; right; left; reflexivity). specialize (Hx q Hq0).
    intros Hp Hq. rewrite Hp, Hq in Hx. cbn [andb negb orb] in Hx. apply orb_true_iff in Hx. lia.
  - apply (IH Hl l1 p l2 q l3 eq_refl).
Qed.

Lemma find_last_cover (a : Z) : forall l ph l2,
  (forall q, In q l2 -> covers q a = false) -> covers ph a = true ->
  find (fun p => covers p a) (rev (l ++ ph :: l2)) = Some ph.
Proof.
  intros l ph l2 Hn Hc. rewrite rev_app_distr. cbn [rev]. rewrite <- app_assoc. rewrite find_app.
  assert (Hf : find (fun p => covers p a) (rev l2) = None).
  { destruct (find _ (rev l2)) as [q|] eqn:E; [|reflexivity]. apply find_some in E. destruct E as [Hin Hq].
    apply in_rev in Hin. rewrite (Hn q Hin) in Hq. discriminate. }
  rewrite Hf. cbn [app find]. now rewrite Hc.
Qed.

Lemma covers_apart p q a : (is_load p = true -> p_filesz p <= p_memsz p) -> (is_load q = true -> p_filesz q <= p_memsz q) ->
  apart p q -> covers p a = true -> covers q a = false.
Proof.
  intros Hp Hq Hap Hc. unfold covers in *. apply andb_true_iff in Hc. destruct Hc as [Hc Hc3]. apply andb_true_iff in Hc. destruct Hc as [Hc1 Hc2].
  destruct (is_load q) eqn:Eq; [|reflexivity]. cbn [andb].
  specialize (Hp Hc1). specialize (Hq eq_refl). destruct (Hap Hc1 Eq); apply andb_false_iff; lia.
Qed.

(* every byte of a segment's file contents is the byte the image has at p_vaddr + k *)
Lemma segment_byte f phs l1 ph l2 k :
  phs = l1 ++ ph :: l2 -> disjoint_loads phs = true ->
  (forall q, In q phs -> is_load q = true -> p_filesz q <= p_memsz q) ->
  is_load ph = true -> 0 <= k < p_filesz ph ->
  file_byte f phs (p_vaddr ph + k) = at8 f (p_offset ph + k).
Proof.
  intros Heq Hdis Hfm Hl Hk. unfold file_byte.
  assert (Hc : covers ph (p_vaddr ph + k) = true) by (unfold covers; rewrite Hl; cbn [andb]; apply andb_true_iff; split; lia).
  assert (Hafter : forall q, In q l2 -> covers q (p_vaddr ph + k) = false).
  { intros q Hin. apply in_split in Hin. destruct Hin as [m1 [m2 ->]].
    apply (covers_apart ph q).
    - intros _. apply Hfm; [rewrite Heq; apply in_or_app; right; left; reflexivity|assumption].
    - apply Hfm. rewrite Heq. apply in_or_app. right. right. apply in_or_app. right. left. reflexivity.
    - apply (disjoint_pairs phs Hdis l1 ph m1 q m2). rewrite Heq. reflexivity.
    - exact Hc. }
  (* a covering segment before ph in the table would overlap it as well *)
  rewrite Heq. rewrite rev_app_distr. cbn [rev]. rewrite <- app_assoc. rewrite find_app.
  assert (Hf : find (fun p => covers p (p_vaddr ph + k)) (rev l2) = None).
  { destruct (find _ (rev l2)) as [q|] eqn:E; [|reflexivity]. apply find_some in E. destruct E as [Hin Hq].
    apply in_rev in Hin. rewrite (Hafter q Hin) in Hq. discriminate. }
  rewrite Hf. cbn [app find]. rewrite Hc. f_equal. lia.
Qed.

(* image bytes that no segment's file contents cover (.bss, gaps) are zero *)
Lemma uncovered_zero f phs a : (forall q, In q phs -> covers q a = false) -> file_byte f phs a = 0.
Proof.
  intros H. unfold file_byte. destruct (find _ (rev phs)) as [q|] eqn:E; [|reflexivity].
  apply find_some in E. destruct E as [Hin Hq]. apply in_rev in Hin. rewrite (H q Hin) in Hq. discriminate.
Qed.

(* ---- the GOT ---- *)
Lemma byte_of_compose w : 0 <= w < 4294967296 ->
  byte_of w 0 * 16777216 + byte_of w 1 * 65536 + byte_of w 2 * 256 + byte_of w 3 = w.
Proof.
  intros H. unfold byte_of. change (256 ^ (3 - 0)) with 16777216. change (256 ^ (3 - 1)) with 65536.
  change (256 ^ (3 - 2)) with 256. change (256 ^ (3 - 3)) with 1. rewrite Z.div_1_r. lia.
Qed.

Definition file_word (f : list Z) (phs : list phdr) (a : Z) : Z :=
  file_byte f phs a * 16777216 + file_byte f phs (a + 1) * 65536 + file_byte f phs (a + 2) * 256 + file_byte f phs (a + 3).
Definition image_word (f : list Z) (phs : list phdr) (got : option shdr) (a : Z) : Z :=
  image_byte f phs got a * 16777216 + image_byte f phs got (a + 1) * 65536 + image_byte f phs got (a + 2) * 256 + image_byte f phs got (a + 3).

(* entry k of .got holds its file value plus the load base, big-endian, modulo 2^32 *)
Lemma got_entry f phs g k : 0 <= k < sh_size g / 4 ->
  image_word f phs (Some g) (sh_addr g + 4 * k) = (file_word f phs (sh_addr g + 4 * k) + BASE) mod 4294967296.
Proof.
  intros Hk. unfold image_word, image_byte, got_lo, got_hi.
  assert (Hin : forall i, 0 <= i <= 3 ->
     ((sh_addr g <=? sh_addr g + 4 * k + i) && (sh_addr g + 4 * k + i <? sh_addr g + 4 * (sh_size g / 4))) = true)
    by (intros i Hi; apply andb_true_iff; split; lia).
  pose proof (Hin 0 ltac:(lia)) as H0. replace (sh_addr g + 4 * k + 0) with (sh_addr g + 4 * k) in H0 by lia.
  rewrite H0, (Hin 1), (Hin 2), (Hin 3) by lia.
  replace (sh_addr g + 4 * ((sh_addr g + 4 * k - sh_addr g) / 4)) with (sh_addr g + 4 * k) by lia.
  replace (sh_addr g + 4 * ((sh_addr g + 4 * k + 1 - sh_addr g) / 4)) with (sh_addr g + 4 * k) by lia.
  replace (sh_addr g + 4 * ((sh_addr g + 4 * k + 2 - sh_addr g) / 4)) with (sh_addr g + 4 * k) by lia.
  replace (sh_addr g + 4 * ((sh_addr g + 4 * k + 3 - sh_addr g) / 4)) with (sh_addr g + 4 * k) by lia.
  replace ((sh_addr g + 4 * k - sh_addr g) mod 4) with 0 by lia.
  replace ((sh_addr g + 4 * k + 1 - sh_addr g) mod 4) with 1 by lia.
  replace ((sh_addr g + 4 * k + 2 - sh_addr g) mod 4) with 2 by lia.
  replace ((sh_addr g + 4 * k + 3 - sh_addr g) mod 4) with 3 by lia.
  fold (file_word f phs (sh_addr g + 4 * k)).
  apply byte_of_compose. apply Z.mod_pos_bound. lia.
Qed.

(* bytes outside the GOT are not relocated *)
Lemma outside_got f phs g a : a < sh_addr g \/ sh_addr g + 4 * (sh_size g / 4) <= a ->
  image_byte f phs (Some g) a = file_byte f phs a.
Proof.
  intros H. unfold image_byte, got_lo, got_hi.
  replace ((sh_addr g <=? a) && (a <? sh_addr g + 4 * (sh_size g / 4))) with false by (symmetry; apply andb_false_iff; lia).
  reflexivity.
Qed.

(* ---- the process environment ---- *)
Lemma er2_is_base f args er0 exit0 got stk symt : get_er (x_er (expected_with f args er0 exit0 got stk symt)) 2 = BASE.
Proof. unfold expected_with. cbn [x_er]. destruct er0, got, stk; reflexivity. Qed.
Lemma er5_is_got f args er0 exit0 g stk symt : get_er (x_er (expected_with f args er0 exit0 (Some g) stk symt)) 5 = BASE + sh_addr g.
Proof. unfold expected_with. cbn [x_er]. destruct er0, stk; reflexivity. Qed.
Lemma er7_is_sp f args er0 exit0 got s symt :
  get_er (x_er (expected_with f args er0 exit0 got (Some s) symt)) 7 = stack_end (ref_phdrs f) s - 8.
Proof. unfold expected_with. cbn [x_er]. destruct er0, got; reflexivity. Qed.
Lemma er0_is_argc f args er0 exit0 got s symt :
  get_er (x_er (expected_with f args er0 exit0 got (Some s) symt)) 0 = 1 + Z.of_nat (length (words_of args [])).
Proof.
  assert (H : get_er (x_er (expected_with f args er0 exit0 got (Some s) symt)) 0 = Z.of_nat (length (argv_words args)))
    by (unfold expected_with; cbn [x_er]; destruct er0, got; reflexivity).
  rewrite H. unfold argv_words. cbn [length]. lia.
Qed.
Lemma er1_is_argv f args er0 exit0 got s symt :
  get_er (x_er (expected_with f args er0 exit0 got (Some s) symt)) 1 = argv_at (ref_phdrs f) s.
Proof. unfold expected_with. cbn [x_er]. destruct er0, got; reflexivity. Qed.

(* stack, TCB and argument block lie above the image in that order *)
Lemma layout_order phs s : 0 <= sh_addr s ->
  BASE + img_end phs + sh_addr s <= stack_end phs s < BASE + img_end phs + sh_addr s + 4 /\
  stack_end phs s mod 4 = 0 /\
  stack_end phs s + TCB <= argv_at phs s < stack_end phs s + TCB + 4 /\ argv_at phs s mod 4 = 0.
Proof. intros H. unfold argv_at, stack_end, up4, TCB. lia. Qed.

(* the strings follow the pointer table back to back *)
Lemma str_addrs_length a ws : length (str_addrs a ws) = length ws.
Proof. revert a. induction ws as [|w t IH]; intros a; [reflexivity|]. cbn [str_addrs length]. now rewrite IH. Qed.

Lemma str_addrs_nth : forall ws a i w, nth_error ws i = Some w ->
  nth_error (str_addrs a ws) i = Some (a + strs_len (firstn i ws)).
Proof.
  induction ws as [|x t IH]; intros a i w H; [destruct i; discriminate|].
  destruct i as [|i]; cbn [nth_error str_addrs firstn strs_len] in *; [f_equal; lia|].
  rewrite (IH _ _ _ H). f_equal. lia.
Qed.

(* the words are the maximal runs of non-blank bytes: none is empty, none contains a blank *)
Lemma words_of_sound : forall l cur, (forallb (fun c => negb (blank c)) cur = true) ->
  Forall (fun w => w <> [] /\ forallb (fun c => negb (blank c)) w = true) (words_of l cur).
Proof.
  induction l as [|c t IH]; intros cur Hc; cbn [words_of].
  - destruct cur as [|x cur]; [constructor|]. cbn [length Nat.eqb]. constructor; [|constructor]. split; [discriminate|exact Hc].
  - destruct (blank c) eqn:Eb.
    + destruct cur as [|x cur]; cbn [length Nat.eqb]; [apply IH; reflexivity|].
      constructor; [split; [discriminate|exact Hc]|apply IH; reflexivity].
    + apply IH. rewrite forallb_app, Hc. cbn [forallb]. now rewrite Eb.
Qed.

(* joining the words with single blanks loses only blanks: the non-blank bytes of the argument string, in order *)
Lemma words_of_content : forall l cur,
  cur ++ filter (fun c => negb (blank c)) l = concat (words_of l cur).
Proof.
  induction l as [|c t IH]; intros cur; cbn [words_of filter].
  - rewrite app_nil_r. destruct cur as [|x cur]; cbn [length Nat.eqb concat]; [reflexivity|now rewrite app_nil_r].
  - destruct (blank c) eqn:Eb; cbn [negb].
    + destruct cur as [|x cur]; cbn [length Nat.eqb concat]; [apply (IH [])|]. f_equal. apply (IH []).
    + rewrite <- IH. rewrite <- app_assoc. reflexivity.
Qed.

(* ---- run() takes the PC from ER2 ---- *)
From K Require Import Model.Addressing Model.Run.
Lemma bwrite_keeps a v s u s' : bwrite a v s = Ok u s' -> pc s' = pc s /\ er s' = er s.
Proof. unfold bwrite. destruct (bus_write (cbus s) a v); [|discriminate]. intros H. injection H as _ <-. split; reflexivity. Qed.

Lemma run_init_pc s s' : run_init s = Ok tt s' -> pc s' = get_er (er s) 2.
Proof.
  unfold run_init, init_registers, bind, modify. 
  repeat match goal with
  | |- context [bwrite ?a ?v ?x] =>
    let E := fresh "E" in destruct (bwrite a v x) as [? ?| |] eqn:E; [apply bwrite_keeps in E; destruct E as [? ?]|discriminate|discriminate]
  end.
  intros Hfin. inversion Hfin; subst.
  repeat match goal with Hp : pc _ = pc _ |- _ => rewrite Hp; clear Hp end. reflexivity.
Qed.

Lemma exit_from_symbol f args er0 exit0 got stk sy v : exit_value f sy = Some v ->
  x_exit (expected_with f args er0 exit0 got stk (Some sy)) = BASE + v.
Proof. intros H. unfold expected_with. cbn [x_exit]. now rewrite H. Qed.
