(* STC.W CCR,<ea> (C08): the register-indirect form, and the post-increment behaviour of the @-ERd encoding
   (the recorded known finding) stated as a theorem about the model. *)
From Coq Require Import Bool ZArith Lia ZifyBool List.
From K Require Import Lib.Bits Lib.Types Model.Machine Model.Bus Model.Cost Model.Addressing Model.Alu Model.Exec Spec.ISA
  Proofs.RegProofs Proofs.MemProofs Proofs.EaProofs Proofs.StepProofs Proofs.IrqProofs Proofs.CtlProofs Proofs.MovProofs.
Import ListNotations.
Open Scope bool_scope. Open Scope Z_scope.
Ltac Zify.zify_post_hook ::= Z.div_mod_to_equations.

Theorem stc_ern_refines_proof op op2 s :
  0 <= ccr s < 256 ->
  let r := Z.land (nib op2 3) 7 in
  run_tag TStcErn op op2 0 s =
  then_charge (mem_write SW s (ea_addr SW s (EInd r)) (ccr s))
              (i <- cs KI 2 ;; d <- csa KM 1 (ea_addr SW s (EInd r)) ;; ret (u8add i d)).
Proof.
  intros Hc r. cbn [run_tag]. fold r.
  assert (R7 : 0 <= r < 8) by (subst r; change 7 with (2^3 - 1); rewrite land_ones_mod by lia; change (2^3) with 8; lia).
  unfold bind at 1. rewrite ea_ern by assumption. change (ea_addr SB s (EInd r)) with (ea_addr SW s (EInd r)).
  unfold bind at 1. unfold get_ccr. unfold bind at 1. rewrite write_w_spec by lia.
  destruct (mem_write SW s (ea_addr SW s (EInd r)) (ccr s)) as [s1|]; reflexivity.
Qed.

(* the @-ERd encoding as coded: the CCR word is stored AT ERd and ERd is then advanced by 2 (post-increment);
   the reference (pre-decrement) differs - recorded known finding stc_predec *)
Theorem stc_predec_is_postinc_proof op op2 s :
  0 <= ccr s < 256 ->
  let r := Z.land (nib op2 3) 7 in
  run_tag TStcInc op op2 0 s =
  then_charge (option_map (fun s1 => set_reg32 s1 r ((reg32 s r + 2) mod 4294967296)) (mem_write SW s (reg32 s r mod A24) (ccr s)))
              (i <- cs KI 2 ;; d <- csa KM 1 (reg32 s r mod A24) ;; n <- cs KN 2 ;; ret (u8add (u8add i d) n)).
Proof.
  intros Hc r. cbn [run_tag]. fold r.
  assert (R7 : 0 <= r < 8) by (subst r; change 7 with (2^3 - 1); rewrite land_ones_mod by lia; change (2^3) with 8; lia).
  unfold bind at 1. rewrite read_rn_l_spec by assumption. unfold bind at 1. unfold get_ccr.
  unfold bind at 1. unfold write_inc_ern. unfold bind at 1. rewrite read_rn_l_spec by assumption.
  cbn [bytes_of]. unfold write_abs24. cbn [Z.eqb Pos.eqb].
  unfold bind at 1. rewrite write_w_spec by lia. rewrite mask24. unfold A24.
  destruct (mem_write SW s (reg32 s r mod 16777216) (ccr s)) as [s1|] eqn:E; cbn [option_map then_charge]; [|reflexivity].
  rewrite write_rn_l_spec by assumption. unfold wrap. change (2^32) with 4294967296. reflexivity.
Qed.
