(* From the instruction words in memory to the reference semantics: bit manipulation on @ERd (prefix 7Cr0 / 7Dr0). *)
From Coq Require Import Bool ZArith Lia ZifyBool List.
From K Require Import Lib.Bits Lib.Types Model.Machine Model.Bus Model.Cost Model.Addressing Model.Alu Model.Exec Spec.ISA
  Proofs.RegProofs Proofs.MemProofs Proofs.FlagProofs Proofs.AluProofs Proofs.BitProofs Proofs.EaProofs Proofs.StepProofs Proofs.DecodeProofs
  Proofs.DecodeProofsBitC Proofs.DecodeProofsBitD
  Proofs.CtlProofs Proofs.MovProofs Proofs.BitMemProofs Proofs.TwoByte Proofs.StepRefines Proofs.StepRefinesCtl Proofs.StepRefines2 Proofs.StepRefines4 Proofs.StepRefinesL.
Import ListNotations.
Open Scope bool_scope. Open Scope Z_scope.
Ltac Zify.zify_post_hook ::= Z.div_mod_to_equations.

(* the operation-code map for @ERd bit instructions: first word 7Cr0 / 7Dr0, nothing taken from the third word on *)
Lemma bit_ern_shape w0 w1 w2 w3 w4 o b r len :
  0 <= w0 < 65536 ->
  decode_ref w0 w1 w2 w3 w4 = Some (IBit o b (BTMem (EInd r)), len) ->
  len = 4 /\ decode_ref w0 w1 0 0 0 = Some (IBit o b (BTMem (EInd r)), 4) /\
  (w0 = 0x7c00 + 16 * r \/ w0 = 0x7d00 + 16 * r) /\ 0 <= r < 8.
Proof.
  intros Hw. unfold decode_ref, dec_mov_mem, dec_unary, dec_imm_group, dec_bit_mem, req, ok. cbv zeta.
  split_ifs; intros H; try discriminate H; try (exfalso; clear -H; inversion H; fail);
    (inversion H; subst; clear H; split; [reflexivity|]; split; [reflexivity|]; unfold hib, n3, n4 in *; split; lia).
Qed.

Lemma bit_mem_ref_pf2 o a k s :
  bit_mem_ref o a k (post_fetch2 s) = option_map (fun s' => set_pc (pc s + 4) (set_opc (pc s + 2) s')) (bit_mem_ref o a k s).
Proof.
  unfold bit_mem_ref. change (mem8 (post_fetch2 s) a) with (mem8 s a). change (ccr (post_fetch2 s)) with (ccr s).
  destruct (mem8 s a) as [v0|]; cbn [ISA.obind option_map]; [|reflexivity].
  destruct (bit_ref o v0 k (ccr s)) as [v c].
  destruct (bit_writes o); [|reflexivity].
  unfold post_fetch2. rewrite put8_pf. destruct (put8 s a v) as [s1|]; reflexivity.
Qed.

Lemma bit_mem_ref_fault o a k s s' : bit_mem_ref o a k s = Some s' -> fault s' = fault s.
Proof.
  unfold bit_mem_ref. destruct (mem8 s a) as [v0|]; cbn [ISA.obind]; [|discriminate].
  destruct (bit_ref o v0 k (ccr s)) as [v c].
  destruct (bit_writes o).
  - destruct (put8 s a v) as [s1|] eqn:E; cbn [ISA.obind]; [|discriminate]. intros H. injection H as <-.
    cbn [fault with_ccr set_ccr]. apply (put8_fault _ _ _ _ E).
  - intros H. injection H as <-. reflexivity.
Qed.

Lemma prefix_c_in r : 0 <= r < 16 -> In (0x7c00 + 16 * r) prefix_bit_C.
Proof. intros H. unfold prefix_bit_C. apply in_map_iff. exists r. split; [reflexivity|]. apply in_zrange. lia. Qed.
Lemma prefix_d_in r : 0 <= r < 16 -> In (0x7d00 + 16 * r) prefix_bit_D.
Proof. intros H. unfold prefix_bit_D. apply in_map_iff. exists r. split; [reflexivity|]. apply in_zrange. lia. Qed.

Lemma bit_ern_agree w0 w1 r i len : 0 <= r < 8 -> (w0 = 0x7c00 + 16 * r \/ w0 = 0x7d00 + 16 * r) -> 0 <= w1 < 65536 ->
  decode_ref w0 w1 0 0 0 = Some (i, len) ->
  agree (select_bit w0 w1) w0 w1 i = true /\ select1 w0 = TBitPrefix /\ nib w0 3 = r.
Proof.
  intros Hr Hw0 Hw1 Hd.
  assert (Hs : forallb (agree2 w0 (select_bit w0) 0) (zrange 65536) = true).
  { destruct Hw0 as [-> | ->].
    - pose proof bit_sweep_C as S. rewrite forallb_forall in S. apply S. apply prefix_c_in. lia.
    - pose proof bit_sweep_D as S. rewrite forallb_forall in S. apply S. apply prefix_d_in. lia. }
  pose proof (forallb_zrange _ 65536 Hs w1 Hw1) as A. unfold agree2 in A. rewrite Hd in A.
  split; [exact A|].
  assert (Hc : r = 0 \/ r = 1 \/ r = 2 \/ r = 3 \/ r = 4 \/ r = 5 \/ r = 6 \/ r = 7) by lia.
  destruct Hw0 as [-> | ->]; destruct Hc as [-> | [-> | [-> | [-> | [-> | [-> | [-> | ->]]]]]]]; split; reflexivity.
Qed.

Theorem step_bit_ern_proof s w0 w1 w2 w3 w4 o b r n s' :
  cpu_ok s -> bus_bytes_ok s -> fault s = false -> pc s mod 2 = 0 -> 0 <= pc s -> pc s + 4 < 4294967296 ->
  mem_read SW s (pc s) = Some w0 -> mem_read SW s (pc s + 2) = Some w1 ->
  decode_ref w0 w1 w2 w3 w4 = Some (IBit o b (BTMem (EInd r)), 4) ->
  sem_ref (IBit o b (BTMem (EInd r))) 4 s = Some s' ->
  bit_charge o (ea_addr SB s (EInd r)) (set_opc (pc s + 2) s') = Ok n (set_opc (pc s + 2) s') ->
  step s = Ok n (set_opc (pc s + 2) s').
Proof.
  intros Hok Hb Hf Hev H0 H1 Hw Hw1 Hd Hsem Hcs.
  pose proof (word_range s _ _ Hb Hw) as Rw0. pose proof (word_range s _ _ Hb Hw1) as Rw1.
  destruct (bit_ern_shape _ _ _ _ _ _ _ _ _ Rw0 Hd) as (_ & Hd0 & Hform & Hr).
  destruct (bit_ern_agree w0 w1 r _ _ Hr Hform Rw1 Hd0) as (Hag & Hsel & Hn3).
  (* fetch of both words and the prefix dispatch *)
  unfold step. rewrite (fetch_word s w0) by (try assumption; lia). fold (post_fetch s).
  unfold exec. rewrite Hsel. unfold bind at 1.
  rewrite (fetch_word (post_fetch s) w1) by (try assumption; unfold post_fetch; cbn [pc set_pc set_opc]; try lia; exact Hw1).
  unfold post_fetch. cbn [pc set_pc set_opc]. replace (pc s + 2 + 2) with (pc s + 4) by lia.
  change (set_pc (pc s + 4) (set_opc (pc s + 2) (set_pc (pc s + 2) (set_opc (pc s) s)))) with (post_fetch2 s).
  fold (finish (run_tag (select_bit w0 w1) w0 w1 0 (post_fetch2 s))).
  rewrite bit_mem_ref_sem in Hsem.
  destruct b as [k|rn].
  - (* immediate bit number *)
    destruct (select_bit w0 w1) eqn:Es; try (simpl in Hag; discriminate Hag).
    cbn [agree] in Hag. repeat (apply andb_true_iff in Hag; destruct Hag as [Hag ?]). apply bop_eqb_eq in Hag. subst o0.
    assert (Ek : k = Z.land (nib w1 3) 7) by lia.
    pose proof (bit_ern_refines_proof o w0 w1 false (post_fetch2 s) Hok Hb) as Hh. cbv zeta in Hh. rewrite Hn3 in Hh.
    rewrite Hh by lia. clear Hh. rewrite <- Ek.
    change (ea_addr SB (post_fetch2 s) (EInd r)) with (ea_addr SB s (EInd r)).
    rewrite bit_mem_ref_pf2.
    destruct (bit_mem_ref o (ea_addr SB s (EInd r)) k s) as [s1|] eqn:E; cbn [option_map] in Hsem; [|discriminate Hsem].
    (apply (f_equal (fun x => match x with Some y => y | None => s' end)) in Hsem; cbv beta iota in Hsem; subst s').
    cbn [option_map then_charge]. change (set_pc (pc s + 4) (set_opc (pc s + 2) s1)) with (set_opc (pc s + 2) (with_pc (pc s + 4) s1)). rewrite Hcs. unfold finish.
    cbn [fault set_opc with_pc set_pc]. rewrite (bit_mem_ref_fault _ _ _ _ _ E), Hf. reflexivity.
  - (* bit number in a register *)
    destruct (select_bit w0 w1) eqn:Es; try (simpl in Hag; discriminate Hag).
    cbn [agree] in Hag. repeat (apply andb_true_iff in Hag; destruct Hag as [Hag ?]). apply bop_eqb_eq in Hag. subst o0.
    assert (Ek : rn = nib w1 3) by lia.
    pose proof (bit_ern_refines_proof o w0 w1 true (post_fetch2 s) Hok Hb) as Hh. cbv zeta in Hh. rewrite Hn3 in Hh.
    rewrite Hh by lia. clear Hh. rewrite <- Ek.
    change (ea_addr SB (post_fetch2 s) (EInd r)) with (ea_addr SB s (EInd r)).
    change (reg8 (post_fetch2 s) rn) with (reg8 s rn).
    rewrite bit_mem_ref_pf2.
    destruct (bit_mem_ref o (ea_addr SB s (EInd r)) (reg8 s rn mod 8) s) as [s1|] eqn:E; cbn [option_map] in Hsem; [|discriminate Hsem].
    (apply (f_equal (fun x => match x with Some y => y | None => s' end)) in Hsem; cbv beta iota in Hsem; subst s').
    cbn [option_map then_charge]. change (set_pc (pc s + 4) (set_opc (pc s + 2) s1)) with (set_opc (pc s + 2) (with_pc (pc s + 4) s1)). rewrite Hcs. unfold finish.
    cbn [fault set_opc with_pc set_pc]. rewrite (bit_mem_ref_fault _ _ _ _ _ E), Hf. reflexivity.
Qed.

(* ------------------------------------------------------------------ @aa:8 (prefix 7Eaa / 7Faa) *)
From K Require Import Proofs.DecodeProofsBitEF.

(* the operation-code map for @aa:8 bit instructions *)
Lemma dec_bit_mem_target ro t w o b t' len :
  dec_bit_mem ro t w = Some (IBit o b t', len) ->
  t' = t /\ len = 4 /\ forall t2, dec_bit_mem ro t2 w = Some (IBit o b t2, 4).
Proof.
  unfold dec_bit_mem, req, ok. cbv zeta.
  split_ifs; intros H; try discriminate H; inversion H; subst; repeat split; reflexivity.
Qed.

Lemma decode_7e w0 w1 w2 w3 w4 : hib w0 = 0x7e -> decode_ref w0 w1 w2 w3 w4 = dec_bit_mem true (BTMem (EAbs (abs8 (lob w0)))) w1.
Proof.
  intros Hh. unfold decode_ref. cbv zeta. rewrite Hh.
  cbn [Z.eqb Pos.eqb Z.leb Z.compare Pos.compare Pos.compare_cont andb orb CompOpp]. reflexivity.
Qed.
Lemma decode_7f w0 w1 w2 w3 w4 : hib w0 = 0x7f -> decode_ref w0 w1 w2 w3 w4 = dec_bit_mem false (BTMem (EAbs (abs8 (lob w0)))) w1.
Proof.
  intros Hh. unfold decode_ref. cbv zeta. rewrite Hh.
  cbn [Z.eqb Pos.eqb Z.leb Z.compare Pos.compare Pos.compare_cont andb orb CompOpp]. reflexivity.
Qed.

Lemma bit_abs_prefix w0 w1 w2 w3 w4 o b a len :
  decode_ref w0 w1 w2 w3 w4 = Some (IBit o b (BTMem (EAbs a)), len) ->
  hib w0 = 0x7e \/ hib w0 = 0x7f.
Proof.
  unfold decode_ref, dec_mov_mem, dec_unary, dec_imm_group, dec_bit_mem, req, ok. cbv zeta.
  split_ifs; intros H; try discriminate H; try (exfalso; clear -H; inversion H; fail); lia.
Qed.

Definition bit_prefix_ok (w : Z) : bool :=
  if (hib w =? 0x7e) || (hib w =? 0x7f) then match select1 w with TBitPrefix => true | _ => false end else true.
Lemma bit_prefix_sweep : forallb bit_prefix_ok (zrange 65536) = true.
Proof. vm_compute. reflexivity. Qed.

Lemma hi8_hib w : 0 <= w -> hi8 w = hib w.
Proof. intros H. unfold hi8, hib. rewrite shiftr_div by lia. reflexivity. Qed.

Lemma select_bit_hi w0 w0' w1 : hi8 w0 = hi8 w0' -> select_bit w0 w1 = select_bit w0' w1.
Proof. intros H. unfold select_bit. rewrite H. reflexivity. Qed.

Theorem step_bit_abs_proof s w0 w1 w2 w3 w4 o b a n s' :
  cpu_ok s -> bus_bytes_ok s -> fault s = false -> pc s mod 2 = 0 -> 0 <= pc s -> pc s + 4 < 4294967296 ->
  mem_read SW s (pc s) = Some w0 -> mem_read SW s (pc s + 2) = Some w1 ->
  decode_ref w0 w1 w2 w3 w4 = Some (IBit o b (BTMem (EAbs a)), 4) ->
  sem_ref (IBit o b (BTMem (EAbs a))) 4 s = Some s' ->
  bit_charge o a (set_opc (pc s + 2) s') = Ok n (set_opc (pc s + 2) s') ->
  step s = Ok n (set_opc (pc s + 2) s').
Proof.
  intros Hok Hb Hf Hev H0 H1 Hw Hw1 Hd Hsem Hcs.
  pose proof (word_range s _ _ Hb Hw) as Rw0. pose proof (word_range s _ _ Hb Hw1) as Rw1.
  pose proof (bit_abs_prefix _ _ _ _ _ _ _ _ _ Hd) as Hpre.
  (* facts from the sample sweep at 7E00 / 7F00 and the structure of the map *)
  assert (Hfacts : a = abs8 (lo8 w0) /\ agree (select_bit w0 w1) (hib w0 * 256) w1 (IBit o b (BTMem (EAbs (abs8 0)))) = true).
  { destruct Hpre as [Hh | Hh].
    - rewrite (decode_7e _ _ _ _ _ Hh) in Hd. destruct (dec_bit_mem_target _ _ _ _ _ _ _ Hd) as (Et & _ & Hall).
      injection Et as ->. rewrite lob_lo8 by lia. split; [reflexivity|].
      assert (Hd0 : decode_ref 0x7e00 w1 0 0 0 = Some (IBit o b (BTMem (EAbs (abs8 0))), 4)).
      { rewrite (decode_7e 0x7e00) by reflexivity. change (lob 0x7e00) with 0. apply Hall. }
      pose proof bit_sweep_EF as S. rewrite forallb_forall in S.
      assert (Hin : In 0x7e00 prefix_bit_EF) by (unfold prefix_bit_EF; cbn; auto).
      pose proof (forallb_zrange _ 65536 (S _ Hin) w1 Rw1) as A. unfold agree2 in A. rewrite Hd0 in A.
      rewrite Hh. change (0x7e * 256) with 0x7e00.
      rewrite (select_bit_hi w0 0x7e00 w1) by (rewrite hi8_hib by lia; rewrite Hh; reflexivity). exact A.
    - rewrite (decode_7f _ _ _ _ _ Hh) in Hd. destruct (dec_bit_mem_target _ _ _ _ _ _ _ Hd) as (Et & _ & Hall).
      injection Et as ->. rewrite lob_lo8 by lia. split; [reflexivity|].
      assert (Hd0 : decode_ref 0x7f00 w1 0 0 0 = Some (IBit o b (BTMem (EAbs (abs8 0))), 4)).
      { rewrite (decode_7f 0x7f00) by reflexivity. change (lob 0x7f00) with 0. apply Hall. }
      pose proof bit_sweep_EF as S. rewrite forallb_forall in S.
      assert (Hin : In 0x7f00 prefix_bit_EF) by (unfold prefix_bit_EF; cbn; auto 10).
      pose proof (forallb_zrange _ 65536 (S _ Hin) w1 Rw1) as A. unfold agree2 in A. rewrite Hd0 in A.
      rewrite Hh. change (0x7f * 256) with 0x7f00.
      rewrite (select_bit_hi w0 0x7f00 w1) by (rewrite hi8_hib by lia; rewrite Hh; reflexivity). exact A. }
  destruct Hfacts as [Ea Hag].
  assert (Hsel : select1 w0 = TBitPrefix).
  { pose proof (forallb_zrange _ 65536 bit_prefix_sweep w0 Rw0) as P. unfold bit_prefix_ok in P.
    replace ((hib w0 =? 0x7e) || (hib w0 =? 0x7f)) with true in P by (destruct Hpre as [-> | ->]; reflexivity).
    destruct (select1 w0); try discriminate P. reflexivity. }
  pose proof (lo8_range w0) as Rl.
  unfold step. rewrite (fetch_word s w0) by (try assumption; lia). fold (post_fetch s).
  unfold exec. rewrite Hsel. unfold bind at 1.
  rewrite (fetch_word (post_fetch s) w1) by (try assumption; unfold post_fetch; cbn [pc set_pc set_opc]; try lia; exact Hw1).
  unfold post_fetch. cbn [pc set_pc set_opc]. replace (pc s + 2 + 2) with (pc s + 4) by lia.
  change (set_pc (pc s + 4) (set_opc (pc s + 2) (set_pc (pc s + 2) (set_opc (pc s) s)))) with (post_fetch2 s).
  fold (finish (run_tag (select_bit w0 w1) w0 w1 0 (post_fetch2 s))).
  rewrite bit_mem_ref_sem in Hsem. cbn [ea_addr] in Hsem.
  destruct b as [k|rn].
  - destruct (select_bit w0 w1) eqn:Es; try (simpl in Hag; discriminate Hag).
    cbn [agree] in Hag. repeat (apply andb_true_iff in Hag; destruct Hag as [Hag ?]). apply bop_eqb_eq in Hag. subst o0.
    assert (Ek : k = Z.land (nib w1 3) 7) by lia.
    pose proof (bit_abs_refines_proof o w0 w1 false (post_fetch2 s) Hok Hb Rl) as Hh. cbv zeta in Hh.
    rewrite Hh. clear Hh. rewrite <- Ek, <- Ea.
    rewrite bit_mem_ref_pf2.
    destruct (bit_mem_ref o a k s) as [s1|] eqn:E; cbn [option_map] in Hsem; [|discriminate Hsem].
    (apply (f_equal (fun x => match x with Some y => y | None => s' end)) in Hsem; cbv beta iota in Hsem; subst s').
    cbn [option_map then_charge]. change (set_pc (pc s + 4) (set_opc (pc s + 2) s1)) with (set_opc (pc s + 2) (with_pc (pc s + 4) s1)).
    rewrite Hcs. unfold finish.
    cbn [fault set_opc with_pc set_pc]. rewrite (bit_mem_ref_fault _ _ _ _ _ E), Hf. reflexivity.
  - destruct (select_bit w0 w1) eqn:Es; try (simpl in Hag; discriminate Hag).
    cbn [agree] in Hag. repeat (apply andb_true_iff in Hag; destruct Hag as [Hag ?]). apply bop_eqb_eq in Hag. subst o0.
    assert (Ek : rn = nib w1 3) by lia.
    pose proof (bit_abs_refines_proof o w0 w1 true (post_fetch2 s) Hok Hb Rl) as Hh. cbv zeta in Hh.
    rewrite Hh. clear Hh. rewrite <- Ek, <- Ea.
    change (reg8 (post_fetch2 s) rn) with (reg8 s rn).
    rewrite bit_mem_ref_pf2.
    destruct (bit_mem_ref o a (reg8 s rn mod 8) s) as [s1|] eqn:E; cbn [option_map] in Hsem; [|discriminate Hsem].
    (apply (f_equal (fun x => match x with Some y => y | None => s' end)) in Hsem; cbv beta iota in Hsem; subst s').
    cbn [option_map then_charge]. change (set_pc (pc s + 4) (set_opc (pc s + 2) s1)) with (set_opc (pc s + 2) (with_pc (pc s + 4) s1)).
    rewrite Hcs. unfold finish.
    cbn [fault set_opc with_pc set_pc]. rewrite (bit_mem_ref_fault _ _ _ _ _ E), Hf. reflexivity.
Qed.
