(* ALU kernels: the code-style formulas of the model (signed view + overflowing_add, masked partial
   sums, shift/mask idioms) equal the manual-style arithmetic definitions of the reference, for every
   operand of width 8, 16 and 32 and every CCR value. *)
From Coq Require Import Bool ZArith Lia ZifyBool List.
From K Require Import Lib.Bits Lib.Types Model.Machine Model.Alu Model.Exec Spec.ISA Proofs.FlagProofs.
Open Scope bool_scope. Open Scope Z_scope.
Ltac Zify.zify_post_hook ::= Z.div_mod_to_equations.

Definition width (n : Z) : Prop := n = 8 \/ n = 16 \/ n = 32.

Lemma ccr_put_range t b c : 0 <= t < 8 -> 0 <= c < 256 -> 0 <= ccr_put t b c < 256.
Proof. intros. rewrite ccr_put_spec by assumption. now apply set_flag_range. Qed.

Lemma set_flag_congr t b b' c c' : b = b' -> c = c' -> set_flag t b c = set_flag t b' c'.
Proof. now intros -> ->. Qed.

(* evaluate closed powers of two *)
Ltac pows :=
  repeat match goal with
  | |- context [2 ^ ?e] =>
    let v := eval vm_compute in (2 ^ e) in
    progress change (2 ^ e) with v
  | H : context [2 ^ ?e] |- _ =>
    let v := eval vm_compute in (2 ^ e) in
    progress change (2 ^ e) with v in H
  end.

Ltac ifs_lia :=
  repeat match goal with |- context [if ?c then _ else _] => destruct c eqn:? end; lia.

Ltac flag_ranges :=
  first [ assumption
        | unfold FC, FV, FZ, FN, FH, FI, FU, FUI; lia
        | apply ccr_put_range; flag_ranges ].

Ltac to_spec_flags := repeat (rewrite ccr_put_spec by flag_ranges).

Ltac flags_eq := repeat (apply set_flag_congr; [try solve [ifs_lia]|]); try reflexivity; try solve [ifs_lia].

(* ---------------- ADD ---------------- *)
Lemma add_spec n a b c : width n -> 0 <= a < 2^n -> 0 <= b < 2^n -> 0 <= c < 256 ->
  add_proc n a b c = alu2_ref AAdd n a b c.
Proof.
  intros [ -> | [ -> | -> ] ] Ha Hb Hc; unfold add_proc, alu2_ref, set_hnzvc, set_nz;
    to_spec_flags; unfold fC, fV, fZ, fN, fH, FC, FV, FZ, FN, FH;
    rewrite !land_ones_mod by lia;
    unfold wrap, sgn, sx, in_signed, signed_ok, neg_bit in *; pows; cbn [Z.sub Z.add Z.opp Z.pos_sub Z.succ_double Z.pred_double Z.double Pos.pred_double] in *;
    (f_equal; flags_eq).
Qed.

Ltac alu_start :=
  to_spec_flags; unfold fC, fV, fZ, fN, fH, FC, FV, FZ, FN, FH;
  rewrite ?land_ones_mod by lia;
  unfold wrap, sgn, sx, in_signed, signed_ok, neg_bit, msb in *; pows.

(* ---------------- SUB / CMP ---------------- *)
Lemma sub_spec n a b c : width n -> 0 <= a < 2^n -> 0 <= b < 2^n -> 0 <= c < 256 ->
  sub_calc n a b c = alu2_ref ASub n a b c.
Proof.
  intros [ -> | [ -> | -> ] ] Ha Hb Hc; unfold sub_calc, alu2_ref, set_hnzvc, set_nz; alu_start; (f_equal; flags_eq).
Qed.

(* ---------------- NEG ---------------- *)
Lemma neg_spec n a c : width n -> 0 <= a < 2^n -> 0 <= c < 256 ->
  neg_proc n a c = alu1_ref UNeg n a c.
Proof.
  intros [ -> | [ -> | -> ] ] Ha Hc; unfold neg_proc, alu1_ref, set_hnzvc, set_nz; alu_start; (f_equal; flags_eq).
Qed.

(* ---------------- INC / DEC ---------------- *)
Lemma inc1_spec n a c : width n -> 0 <= a < 2^n -> 0 <= c < 256 -> inc_proc n 1 a c = alu1_ref UInc1 n a c.
Proof.
  intros [ -> | [ -> | -> ] ] Ha Hc; unfold inc_proc, alu1_ref, set_nz; cbn [Z.eqb Pos.eqb]; alu_start; (f_equal; flags_eq).
Qed.
Lemma inc2_spec n a c : width n -> 0 <= a < 2^n -> 0 <= c < 256 -> inc_proc n 2 a c = alu1_ref UInc2 n a c.
Proof.
  intros [ -> | [ -> | -> ] ] Ha Hc; unfold inc_proc, alu1_ref, set_nz; cbn [Z.eqb Pos.eqb]; alu_start; (f_equal; flags_eq).
Qed.
Lemma dec1_spec n a c : width n -> 0 <= a < 2^n -> 0 <= c < 256 -> dec_proc n 1 a c = alu1_ref UDec1 n a c.
Proof.
  intros [ -> | [ -> | -> ] ] Ha Hc; unfold dec_proc, alu1_ref, set_nz; alu_start; (f_equal; flags_eq).
Qed.
Lemma dec2_spec n a c : width n -> 0 <= a < 2^n -> 0 <= c < 256 -> dec_proc n 2 a c = alu1_ref UDec2 n a c.
Proof.
  intros [ -> | [ -> | -> ] ] Ha Hc; unfold dec_proc, alu1_ref, set_nz; alu_start; (f_equal; flags_eq).
Qed.

(* ---------------- AND / OR / XOR / NOT / EXTU ---------------- *)
Lemma logic_flags_spec n r c : width n -> 0 <= r < 2^n -> 0 <= c < 256 ->
  logic_flags n r c = set_flag fV false (set_nz n r c).
Proof.
  intros [ -> | [ -> | -> ] ] Hr Hc; unfold logic_flags, set_nz; alu_start; flags_eq.
Qed.
Lemma and_spec n a b c : width n -> 0 <= a < 2^n -> 0 <= b < 2^n -> 0 <= c < 256 ->
  and_proc n a b c = alu2_ref AAnd n a b c.
Proof.
  intros Hn Ha Hb Hc. unfold and_proc, alu2_ref. f_equal. apply logic_flags_spec; try assumption.
  apply land_range; try assumption. destruct Hn as [ -> | [ -> | -> ] ]; lia.
Qed.
Lemma or_spec n a b c : width n -> 0 <= a < 2^n -> 0 <= b < 2^n -> 0 <= c < 256 ->
  or_proc n a b c = alu2_ref AOr n a b c.
Proof.
  intros Hn Ha Hb Hc. unfold or_proc, alu2_ref. f_equal. apply logic_flags_spec; try assumption.
  apply lor_range; try assumption. destruct Hn as [ -> | [ -> | -> ] ]; lia.
Qed.
Lemma xor_spec n a b c : width n -> 0 <= a < 2^n -> 0 <= b < 2^n -> 0 <= c < 256 ->
  xor_proc n a b c = alu2_ref AXor n a b c.
Proof.
  intros Hn Ha Hb Hc. unfold xor_proc, alu2_ref. f_equal. apply logic_flags_spec; try assumption.
  apply lxor_range; try assumption. destruct Hn as [ -> | [ -> | -> ] ]; lia.
Qed.
Lemma not_spec n a c : width n -> 0 <= a < 2^n -> 0 <= c < 256 -> not_proc n a c = alu1_ref UNot n a c.
Proof.
  intros Hn Ha Hc. unfold not_proc, alu1_ref. f_equal. apply logic_flags_spec; try assumption. lia.
Qed.
Lemma extu_spec n a c : n = 16 \/ n = 32 -> 0 <= a < 2^n -> 0 <= c < 256 -> extu_proc n a c = alu1_ref UExtu n a c.
Proof.
  intros [ -> | -> ] Ha Hc; unfold extu_proc, alu1_ref;
    [change (16 / 2) with 8|change (32 / 2) with 16]; rewrite land_ones_mod by lia; alu_start; (f_equal; flags_eq).
Qed.

(* ---------------- ADDX (8 bit) ---------------- *)
Definition addx_v_ok (a : Z) : bool :=
  forallb (fun b => forallb (fun ci =>
    let v := (a + b + ci) mod 256 in
    Bool.eqb (negb (Z.land (Z.land (Z.lxor a v) (Z.lxor b v)) 128 =? 0))
             (negb (signed_ok 8 (sx 8 a + sx 8 b + ci)))) (zrange 2)) (zrange 256).
Lemma addx_v_sweep : forallb addx_v_ok (zrange 256) = true.
Proof. vm_compute. reflexivity. Qed.
Lemma addx_v a b ci : 0 <= a < 256 -> 0 <= b < 256 -> 0 <= ci < 2 ->
  negb (Z.land (Z.land (Z.lxor a ((a + b + ci) mod 256)) (Z.lxor b ((a + b + ci) mod 256))) 128 =? 0)
  = negb (signed_ok 8 (sx 8 a + sx 8 b + ci)).
Proof.
  intros Ha Hb Hc. pose proof (forallb_zrange _ 256 addx_v_sweep a Ha) as H1.
  pose proof (forallb_zrange _ 256 H1 b Hb) as H2. pose proof (forallb_zrange _ 2 H2 ci Hc) as H3.
  now apply Bool.eqb_prop.
Qed.

Lemma set_flag_same t c : set_flag t (flag c t) c = c.
Proof. unfold set_flag. destruct (flag c t); lia. Qed.

Lemma addx_spec a b c : 0 <= a < 256 -> 0 <= b < 256 -> 0 <= c < 256 ->
  addx_proc a b c = alu2_ref AAddx 8 a b c.
Proof.
  intros Ha Hb Hc. unfold addx_proc, alu2_ref.
  rewrite ccr_get_spec by (unfold FC; lia). unfold fC, FC.
  set (ci := if flag c 0 then 1 else 0).
  assert (Hci : 0 <= ci < 2) by (subst ci; destruct (flag c 0); lia).
  change (8 - 4) with 4. change (2 ^ 4) with 16. change (2 ^ 8) with 256.
  change 0x0f with (2^4 - 1). rewrite !land_ones_mod by lia. change (2^4) with 16. change (2^4 - 1) with 15.
  unfold wrap. change (2 ^ 8) with 256.
  rewrite addx_v by assumption.
  set (r := (a + b + ci) mod 256).
  assert (Hr : 0 <= r < 256) by (subst r; lia).
  set (c1m := ccr_put FH (16 - 1 <? a mod 16 + b mod 16 + ci) c).
  assert (E1 : c1m = set_flag fH (16 <=? a mod 16 + b mod 16 + ci) c).
  { subst c1m. rewrite ccr_put_spec by (unfold FH; lia). unfold fH, FH. apply set_flag_congr; [lia|reflexivity]. }
  rewrite E1. set (c1 := set_flag fH (16 <=? a mod 16 + b mod 16 + ci) c).
  assert (R1 : 0 <= c1 < 256) by (subst c1; apply set_flag_range; unfold fH; lia).
  set (c2m := ccr_put FN (sgn 8 r <? 0) c1).
  assert (E2 : c2m = set_flag fN (neg_bit 8 r) c1).
  { subst c2m. rewrite ccr_put_spec by (unfold FN; lia). unfold fN, FN. apply set_flag_congr; [|reflexivity].
    unfold sgn, neg_bit. change (2^(8-1)) with 128. change (2^8) with 256. destruct (r <? 128) eqn:?; lia. }
  rewrite E2. set (c2 := set_flag fN (neg_bit 8 r) c1).
  assert (R2 : 0 <= c2 < 256) by (subst c2; apply set_flag_range; unfold fN; lia).
  assert (FZ2 : flag c2 fZ = flag c fZ).
  { subst c2 c1. unfold fZ, fN, fH. rewrite !set_flag_frame by (try lia; apply set_flag_range; lia). reflexivity. }
  set (c3m := if r =? 0 then c2 else ccr_put FZ false c2).
  assert (E3 : c3m = set_flag fZ (flag c fZ && (r =? 0)) c2).
  { subst c3m. destruct (r =? 0).
    - rewrite andb_true_r, <- FZ2. symmetry. apply set_flag_same.
    - rewrite andb_false_r. rewrite ccr_put_spec by (unfold FZ; lia). reflexivity. }
  rewrite E3. set (c3 := set_flag fZ (flag c fZ && (r =? 0)) c2).
  assert (R3 : 0 <= c3 < 256) by (subst c3; apply set_flag_range; unfold fZ; lia).
  rewrite (ccr_put_spec FV) by (unfold FV; lia).
  rewrite (ccr_put_spec 0) by (try lia; apply set_flag_range; unfold FV; lia).
  f_equal. apply set_flag_congr; [lia|]. reflexivity.
Qed.

(* ---------------- shifts and rotates ---------------- *)
Ltac shifts := rewrite ?shiftl_mul, ?shiftr_div by lia; rewrite ?land1_mod2.

(* value lemmas: mask/shift idioms as arithmetic *)
Lemma shar_val n v : width n -> 0 <= v < 2^n ->
  Z.lor (Z.shiftr v 1) (Z.land v (2^(n-1))) = (sx n v / 2) mod 2^n.
Proof.
  intros [ -> | [ -> | -> ] ] Hv; rewrite land_bit by lia; shifts; unfold sx; pows;
    match goal with |- Z.lor ?lo (?h * ?p) = _ =>
      let k := eval vm_compute in (Z.log2 p) in
      change p with (2^k); rewrite lor_low_high by (pows; lia); pows end;
    repeat match goal with |- context [if ?c then _ else _] => destruct c eqn:? end; lia.
Qed.

Lemma rotl_val n v : width n -> 0 <= v < 2^n ->
  Z.lor (wrap n (Z.shiftl v 1)) (Z.shiftr v (n-1)) = (2 * v) mod 2^n + v / 2^(n-1).
Proof.
  intros [ -> | [ -> | -> ] ] Hv; unfold wrap; shifts; pows; rewrite lor_even_bit by lia; lia.
Qed.

Lemma rotr_val n v : width n -> 0 <= v < 2^n ->
  Z.lor (Z.shiftr v 1) (wrap n (Z.shiftl v (n-1))) = v / 2 + (v mod 2) * 2^(n-1).
Proof.
  intros [ -> | [ -> | -> ] ] Hv; unfold wrap; shifts; pows.
  - replace ((v * 128) mod 256) with ((v mod 2) * 2^7) by (pows; lia). rewrite lor_low_high by (pows; lia). pows. lia.
  - replace ((v * 32768) mod 65536) with ((v mod 2) * 2^15) by (pows; lia). rewrite lor_low_high by (pows; lia). pows. lia.
  - replace ((v * 2147483648) mod 4294967296) with ((v mod 2) * 2^31) by (pows; lia). rewrite lor_low_high by (pows; lia). pows. lia.
Qed.

Lemma rotxl_val n v c : width n -> 0 <= v < 2^n -> 0 <= c < 256 ->
  Z.lor (wrap n (Z.shiftl v 1)) (Z.land c 1) = (2 * v) mod 2^n + (if flag c fC then 1 else 0).
Proof.
  intros Hn Hv Hc. assert (E : Z.land c 1 = if flag c fC then 1 else 0).
  { rewrite land1_mod2. unfold flag, fC. change (2^0) with 1. rewrite Z.div_1_r. destruct (c mod 2 =? 1) eqn:?; lia. }
  rewrite E. destruct Hn as [ -> | [ -> | -> ] ]; unfold wrap; shifts; pows;
    (rewrite lor_even_bit by (try (destruct (flag c fC)); lia)); lia.
Qed.

Lemma rotxr_val n v c : width n -> 0 <= v < 2^n -> 0 <= c < 256 ->
  Z.lor (Z.shiftr v 1) (Z.shiftl (Z.land c 1) (n-1)) = v / 2 + (if flag c fC then 1 else 0) * 2^(n-1).
Proof.
  intros Hn Hv Hc. assert (E : Z.land c 1 = if flag c fC then 1 else 0).
  { rewrite land1_mod2. unfold flag, fC. change (2^0) with 1. rewrite Z.div_1_r. destruct (c mod 2 =? 1) eqn:?; lia. }
  rewrite E. destruct Hn as [ -> | [ -> | -> ] ]; shifts;
    [change (8-1) with 7|change (16-1) with 15|change (32-1) with 31];
    (rewrite lor_low_high by (pows; lia)); reflexivity.
Qed.

Ltac ifs := repeat match goal with |- context [if ?c then _ else _] => destruct c eqn:? end.

(* flag idioms *)
Lemma msb_test n r : width n -> 0 <= r < 2^n -> (Z.land r (2^(n-1)) =? 2^(n-1)) = neg_bit n r.
Proof.
  intros [ -> | [ -> | -> ] ] Hr; rewrite land_bit by lia; unfold neg_bit; pows; ifs; lia.
Qed.
Lemma lsb_test v : (Z.land v 1 =? 1) = (v mod 2 =? 1).
Proof. now rewrite land1_mod2. Qed.

Lemma shift_right_flags_spec n src r c nflag : width n -> 0 <= r < 2^n -> 0 <= c < 256 ->
  shift_right_flags n src r c nflag =
  set_flag fC (src mod 2 =? 1) (set_flag fV false (set_flag fZ (r =? 0) (set_flag fN nflag c))).
Proof.
  intros Hn Hr Hc. unfold shift_right_flags. to_spec_flags. rewrite lsb_test. reflexivity.
Qed.

Lemma shll_spec n v c : width n -> 0 <= v < 2^n -> 0 <= c < 256 -> shll_proc n v c = alu1_ref UShll n v c.
Proof.
  intros Hn Hv Hc. unfold shll_proc, alu1_ref, set_nz. to_spec_flags.
  destruct Hn as [ -> | [ -> | -> ] ]; rewrite land_bit by lia; unfold wrap, neg_bit, fC, fV, fZ, fN, FC, FV, FZ, FN; shifts; pows;
    (f_equal; [lia|flags_eq]).
Qed.

(* SHAL: everything but V always; V whenever bit n-2 of the operand is clear (otherwise: known finding) *)
Definition shal_known (n v : Z) : bool := (v / 2^(n-2)) mod 2 =? 1.
Lemma shal_spec n v c : width n -> 0 <= v < 2^n -> 0 <= c < 256 -> shal_known n v = false ->
  shal_proc n v c = alu1_ref UShal n v c.
Proof.
  intros Hn Hv Hc Hk. unfold shal_proc, alu1_ref, set_nz, shal_known in *. to_spec_flags.
  unfold msb.
  destruct Hn as [ -> | [ -> | -> ] ]; rewrite !land_bit by lia; unfold wrap, neg_bit, fC, fV, fZ, fN, FC, FV, FZ, FN in *;
    shifts; pows; (f_equal; [lia|flags_eq]).
Qed.
(* outside V the coded SHAL always agrees with the reference *)
Lemma shal_spec_but_v n v c : width n -> 0 <= v < 2^n -> 0 <= c < 256 ->
  fst (shal_proc n v c) = fst (alu1_ref UShal n v c) /\
  forall u, 0 <= u < 8 -> u <> fV -> flag (snd (shal_proc n v c)) u = flag (snd (alu1_ref UShal n v c)) u.
Proof.
  intros Hn Hv Hc. unfold shal_proc, alu1_ref, set_nz. cbn [fst snd]. to_spec_flags.
  split.
  - destruct Hn as [ -> | [ -> | -> ] ]; unfold wrap; shifts; pows; lia.
  - intros u Hu Hne.
    assert (Hr : forall t b x, 0 <= t < 8 -> 0 <= x < 256 -> 0 <= set_flag t b x < 256) by (intros; now apply set_flag_range).
    unfold fC, fV, fZ, fN, FC, FV, FZ, FN in *.
    rewrite !set_flag_frame by (try lia; repeat apply Hr; lia).
    unfold msb.
    destruct Hn as [ -> | [ -> | -> ] ]; rewrite ?land_bit by lia; unfold wrap, neg_bit; shifts; pows;
      repeat match goal with |- context [if ?c then _ else _] => destruct c eqn:? end; try reflexivity; try lia.
Qed.

Lemma shlr_spec n v c : width n -> 0 <= v < 2^n -> 0 <= c < 256 -> shlr_proc n v c = alu1_ref UShlr n v c.
Proof.
  intros Hn Hv Hc. unfold shlr_proc, alu1_ref, set_nz.
  assert (Hr : 0 <= Z.shiftr v 1 < 2^n) by (rewrite shiftr_div by lia; change (2^1) with 2; destruct Hn as [ -> | [ -> | -> ] ]; pows; lia).
  rewrite shift_right_flags_spec by assumption. rewrite shiftr_div by lia. change (2^1) with 2.
  f_equal. unfold neg_bit. apply set_flag_congr; [reflexivity|]. apply set_flag_congr; [reflexivity|].
  apply set_flag_congr; [reflexivity|]. apply set_flag_congr; [|reflexivity].
  destruct Hn as [ -> | [ -> | -> ] ]; pows; lia.
Qed.

Lemma shar_spec n v c : width n -> 0 <= v < 2^n -> 0 <= c < 256 -> shar_proc n v c = alu1_ref UShar n v c.
Proof.
  intros Hn Hv Hc. unfold shar_proc, alu1_ref, set_nz, msb. rewrite shar_val by assumption.
  set (r := (sx n v / 2) mod 2^n).
  assert (Hr : 0 <= r < 2^n) by (subst r; destruct Hn as [ -> | [ -> | -> ] ]; pows; lia).
  rewrite shift_right_flags_spec by assumption. rewrite msb_test by assumption. reflexivity.
Qed.

Lemma rotl_spec n v c : width n -> 0 <= v < 2^n -> 0 <= c < 256 -> rotl_proc n v c = alu1_ref URotl n v c.
Proof.
  intros Hn Hv Hc. unfold rotl_proc, alu1_ref, set_nz, msb. rewrite rotl_val by assumption.
  set (r := (2 * v) mod 2^n + v / 2^(n-1)).
  assert (Hr : 0 <= r < 2^n) by (subst r; destruct Hn as [ -> | [ -> | -> ] ]; pows; lia).
  to_spec_flags. rewrite msb_test by assumption. rewrite lsb_test.
  f_equal. unfold fC, fV, fZ, fN, FC, FV, FZ, FN. apply set_flag_congr; [|reflexivity].
  subst r. destruct Hn as [ -> | [ -> | -> ] ]; pows; lia.
Qed.

Lemma rotr_spec n v c : width n -> 0 <= v < 2^n -> 0 <= c < 256 -> rotr_proc n v c = alu1_ref URotr n v c.
Proof.
  intros Hn Hv Hc. unfold rotr_proc, alu1_ref, set_nz, msb. rewrite rotr_val by assumption.
  set (r := v / 2 + v mod 2 * 2^(n-1)).
  assert (Hr : 0 <= r < 2^n) by (subst r; destruct Hn as [ -> | [ -> | -> ] ]; pows; lia).
  rewrite shift_right_flags_spec by assumption. rewrite msb_test by assumption. reflexivity.
Qed.

Lemma rotxl_spec n v c : width n -> 0 <= v < 2^n -> 0 <= c < 256 -> rotxl_proc n v c = alu1_ref URotxl n v c.
Proof.
  intros Hn Hv Hc. unfold rotxl_proc, alu1_ref, set_nz, msb. rewrite rotxl_val by assumption.
  set (r := (2 * v) mod 2^n + (if flag c fC then 1 else 0)).
  assert (Hr : 0 <= r < 2^n) by (subst r; destruct (flag c fC); destruct Hn as [ -> | [ -> | -> ] ]; pows; lia).
  to_spec_flags. rewrite msb_test by assumption. rewrite lsb_test. rewrite shiftr_div by (destruct Hn as [ -> | [ -> | -> ] ]; lia).
  f_equal. unfold fC, fV, fZ, fN, FC, FV, FZ, FN. apply set_flag_congr; [|reflexivity].
  destruct Hn as [ -> | [ -> | -> ] ]; pows; lia.
Qed.

Lemma rotxr_spec n v c : width n -> 0 <= v < 2^n -> 0 <= c < 256 -> rotxr_proc n v c = alu1_ref URotxr n v c.
Proof.
  intros Hn Hv Hc. unfold rotxr_proc, alu1_ref, set_nz, msb. rewrite rotxr_val by assumption.
  set (r := v / 2 + (if flag c fC then 1 else 0) * 2^(n-1)).
  assert (Hr : 0 <= r < 2^n) by (subst r; destruct (flag c fC); destruct Hn as [ -> | [ -> | -> ] ]; pows; lia).
  rewrite shift_right_flags_spec by assumption. rewrite msb_test by assumption. reflexivity.
Qed.

(* ---------------- summary: every ALU operation ---------------- *)
Theorem alu2_fun_spec o n a b c :
  width n -> (o = AAddx -> n = 8) -> 0 <= a < 2^n -> 0 <= b < 2^n -> 0 <= c < 256 ->
  alu2_fun o n a b c = alu2_ref o n a b c.
Proof.
  intros Hn Hx Ha Hb Hc. destruct o; cbn [alu2_fun].
  - now apply add_spec.
  - now apply sub_spec.
  - now apply sub_spec.
  - now apply and_spec.
  - now apply or_spec.
  - now apply xor_spec.
  - rewrite (Hx eq_refl) in *. change (2^8) with 256 in *. now apply addx_spec.
Qed.

Definition alu1_defined (o : alu1) (n : Z) : Prop :=
  match o with UExtu => n = 16 \/ n = 32 | UInc2 | UDec2 => n = 16 \/ n = 32 | _ => True end.

Theorem alu1_fun_spec o n v c :
  width n -> alu1_defined o n -> 0 <= v < 2^n -> 0 <= c < 256 ->
  (o = UShal -> shal_known n v = false) ->
  alu1_fun o n v c = alu1_ref o n v c.
Proof.
  intros Hn Hd Hv Hc Hk. destruct o; cbn [alu1_fun].
  - now apply neg_spec.
  - now apply not_spec.
  - now apply extu_spec.
  - now apply inc1_spec.
  - now apply inc2_spec.
  - now apply dec1_spec.
  - now apply dec2_spec.
  - apply shal_spec; auto.
  - now apply shar_spec.
  - now apply shll_spec.
  - now apply shlr_spec.
  - now apply rotl_spec.
  - now apply rotr_spec.
  - now apply rotxl_spec.
  - now apply rotxr_spec.
Qed.

(* the known finding is genuine: a witness inside the class where V differs *)
Lemma shal_known_witness :
  shal_known 8 0x40 = true /\ flag (snd (shal_proc 8 0x40 0)) fV <> flag (snd (alu1_ref UShal 8 0x40 0)) fV.
Proof. split; vm_compute; [reflexivity|discriminate]. Qed.

(* MULXU / DIVXU kernels *)
Lemma divxu_spec n rd rs c : n = 8 \/ n = 16 -> 0 <= rd < 2^(2*n) -> 0 < rs < 2^n -> rd / rs < 2^n -> 0 <= c < 256 ->
  divxu_proc n rd rs c =
  ((rd mod rs) * 2^n + rd / rs, set_flag fZ false (set_flag fN (neg_bit n rs) c)).
Proof.
  intros [ -> | -> ] Hrd Hrs Hq Hc; unfold divxu_proc; to_spec_flags;
    (assert (rs =? 0 = false) as -> by lia);
    unfold wrap, sgn, neg_bit, fZ, fN, FZ, FN; shifts; rewrite land_ones_mod by lia;
    [change (2*8) with 16 in *|change (2*16) with 32 in *]; pows.
  - assert (Hm : 0 <= rd mod rs < rs) by (apply Z.mod_pos_bound; lia).
    assert (Hq0 : 0 <= rd / rs) by (apply Z.div_pos; lia).
    rewrite (Z.mod_small (rd mod rs * 256)) by nia. rewrite (Z.mod_small (rd / rs)) by lia.
    change 256 with (2^8). rewrite lor_high_low by (change (2^8) with 256; lia). change (2^8) with 256.
    f_equal. flags_eq.
  - assert (Hm : 0 <= rd mod rs < rs) by (apply Z.mod_pos_bound; lia).
    assert (Hq0 : 0 <= rd / rs) by (apply Z.div_pos; lia).
    rewrite (Z.mod_small (rd mod rs * 65536)) by nia. rewrite (Z.mod_small (rd / rs)) by lia.
    change 65536 with (2^16). rewrite lor_high_low by (change (2^16) with 65536; lia). change (2^16) with 65536.
    f_equal. flags_eq.
Qed.
