(* Enumerations shared by the model (Model/Exec.v) and the reference (Spec/ISA.v). *)
From Coq Require Import ZArith.
Open Scope Z_scope.

Inductive sz := SB | SW | SL.
Definition bytes_of (s : sz) : Z := match s with SB => 1 | SW => 2 | SL => 4 end.
Definition bits_of (s : sz) : Z := match s with SB => 8 | SW => 16 | SL => 32 end.

Inductive alu2 := AAdd | ASub | ACmp | AAnd | AOr | AXor | AAddx.
Inductive alu1 := UNeg | UNot | UExtu | UInc1 | UInc2 | UDec1 | UDec2
                | UShal | UShar | UShll | UShlr | URotl | URotr | URotxl | URotxr.
Inductive bop := BSet | BNot | BClr | BTst | BSt | BISt | BLd | BILd | BAnd | BIAnd | BOr | BIOr | BXor | BIXor.
