(* Well-formed UTF-8 (RFC 3629, Unicode table 3-7) as a byte-at-a-time automaton; this is both what
   String::from_utf8 accepts and the reference's notion of a valid text. *)
From Coq Require Import Bool ZArith List.
Import ListNotations.
Open Scope bool_scope. Open Scope Z_scope.

(* state: continuation bytes still expected and the admissible range of the next one *)
Definition utf8_next (st : Z * Z * Z) (b : Z) : option (Z * Z * Z) :=
  let '(need, lo, hi) := st in
  if need =? 0 then
    if b <=? 0x7f then Some (0, 0x80, 0xbf)
    else if (0xc2 <=? b) && (b <=? 0xdf) then Some (1, 0x80, 0xbf)
    else if b =? 0xe0 then Some (2, 0xa0, 0xbf)
    else if ((0xe1 <=? b) && (b <=? 0xec)) || (b =? 0xee) || (b =? 0xef) then Some (2, 0x80, 0xbf)
    else if b =? 0xed then Some (2, 0x80, 0x9f)
    else if b =? 0xf0 then Some (3, 0x90, 0xbf)
    else if (0xf1 <=? b) && (b <=? 0xf3) then Some (3, 0x80, 0xbf)
    else if b =? 0xf4 then Some (3, 0x80, 0x8f)
    else None
  else if (lo <=? b) && (b <=? hi) then Some (need - 1, 0x80, 0xbf) else None.
Fixpoint utf8_run (st : Z * Z * Z) (l : list Z) : bool :=
  match l with
  | [] => let '(need, _, _) := st in need =? 0
  | b :: t => match utf8_next st b with Some st' => utf8_run st' t | None => false end
  end.
Definition utf8_valid (l : list Z) : bool := utf8_run (0, 0x80, 0xbf) l.

