(* Bit-level / arithmetic bridges used everywhere: masks as mod, shifts as
   mul/div, disjoint lor as +.  stdlib only. *)
From Coq Require Import Bool ZArith Lia ZifyBool List.
Open Scope bool_scope. Open Scope Z_scope.
Ltac Zify.zify_post_hook ::= Z.div_mod_to_equations.

Lemma land_ones_mod x k : 0 <= k -> Z.land x (2^k - 1) = x mod 2^k.
Proof. intros Hk. rewrite <- Z.land_ones by lia. now rewrite Z.ones_equiv, Z.sub_1_r. Qed.

Lemma lor_disjoint_add a b : Z.land a b = 0 -> Z.lor a b = a + b.
Proof.
  intros H. rewrite <- Z.lxor_lor by exact H.
  symmetry. apply Z.add_nocarry_lxor. exact H.
Qed.

Lemma shiftr_div x k : 0 <= k -> Z.shiftr x k = x / 2^k.
Proof. intros. apply Z.shiftr_div_pow2; lia. Qed.

Lemma shiftl_mul x k : 0 <= k -> Z.shiftl x k = x * 2^k.
Proof. intros. apply Z.shiftl_mul_pow2; lia. Qed.

Lemma testbit_div_mod x k : 0 <= k -> Z.testbit x k = ((x / 2^k) mod 2 =? 1).
Proof.
  intros Hk. rewrite Z.testbit_eqb by lia.
  destruct (Z.eqb_spec ((x / 2^k) mod 2) 1); lia.
Qed.

(* high part * 2^k and a low part < 2^k have disjoint bits *)
Lemma land_high_low a b k : 0 <= k -> 0 <= b < 2^k -> Z.land (a * 2^k) b = 0.
Proof.
  intros Hk Hb. apply Z.bits_inj'. intros n Hn.
  rewrite Z.land_spec, Z.bits_0.
  destruct (Z.lt_ge_cases n k) as [Hlt|Hge].
  - rewrite Z.mul_pow2_bits_low by lia. reflexivity.
  - assert (Z.testbit b n = false) as ->; [|apply andb_false_r].
    destruct (Z.eq_dec b 0) as [->|Hnz]; [apply Z.bits_0|].
    apply Z.bits_above_log2; [lia|].
    apply Z.log2_lt_pow2; [lia|].
    apply Z.lt_le_trans with (2^k); [lia|].
    apply Z.pow_le_mono_r; lia.
Qed.

Lemma lor_high_low a b k : 0 <= k -> 0 <= b < 2^k -> Z.lor (a * 2^k) b = a * 2^k + b.
Proof. intros. apply lor_disjoint_add. now apply land_high_low. Qed.

(* finite sweep support: every z in [0,n) is in the enumerated list *)
Fixpoint zrange_from (start : Z) (n : nat) : list Z :=
  match n with O => nil | S k => start :: zrange_from (start + 1) k end.
Definition zrange (n : nat) : list Z := zrange_from 0 n.

Lemma in_zrange_from n : forall start z, start <= z < start + Z.of_nat n -> In z (zrange_from start n).
Proof.
  induction n as [|k IH]; intros start z H.
  - lia.
  - cbn [zrange_from]. destruct (Z.eq_dec z start) as [->|Hne]; [now left|right].
    apply IH. lia.
Qed.

Lemma in_zrange n z : 0 <= z < Z.of_nat n -> In z (zrange n).
Proof. intros H. apply in_zrange_from. lia. Qed.

Lemma forallb_zrange (P : Z -> bool) n :
  forallb P (zrange n) = true -> forall z, 0 <= z < Z.of_nat n -> P z = true.
Proof. intros H z Hz. rewrite forallb_forall in H. apply H. now apply in_zrange. Qed.

(* ---- single-bit masks and disjoint unions ---- *)
Lemma land_bit v k : 0 <= k -> Z.land v (2^k) = ((v / 2^k) mod 2) * 2^k.
Proof.
  intros Hk. apply Z.bits_inj'. intros i Hi.
  rewrite Z.land_spec, Z.pow2_bits_eqb by lia.
  pose proof (testbit_div_mod v k Hk) as Hb.
  assert (Hr : 0 <= (v / 2^k) mod 2 < 2) by (apply Z.mod_pos_bound; lia).
  destruct (Z.eq_dec ((v / 2^k) mod 2) 1) as [E|E].
  - rewrite E, Z.mul_1_l, Z.pow2_bits_eqb by lia. rewrite E in Hb. cbn in Hb.
    destruct (Z.eqb_spec k i) as [<-|]; [now rewrite Hb|apply andb_false_r].
  - assert (E0 : (v / 2^k) mod 2 = 0) by lia. rewrite E0, Z.mul_0_l, Z.bits_0. rewrite E0 in Hb. cbn in Hb.
    destruct (Z.eqb_spec k i) as [<-|]; [now rewrite Hb|apply andb_false_r].
Qed.

Lemma lor_low_high lo h k : 0 <= k -> 0 <= lo < 2^k -> Z.lor lo (h * 2^k) = lo + h * 2^k.
Proof. intros. rewrite Z.lor_comm, lor_high_low by assumption. lia. Qed.

Lemma lor_even_bit x y : x mod 2 = 0 -> 0 <= y <= 1 -> Z.lor x y = x + y.
Proof.
  intros Hx Hy. assert (x = (x / 2) * 2^1) as -> by (change (2^1) with 2; pose proof (Z.div_mod x 2); lia).
  apply lor_high_low; [lia|change (2^1) with 2; lia].
Qed.

(* bounds of bitwise operations on n-bit values *)
Lemma land_range a b n : 0 <= n -> 0 <= a < 2^n -> 0 <= b < 2^n -> 0 <= Z.land a b < 2^n.
Proof.
  intros Hn Ha Hb. split; [apply Z.land_nonneg; lia|].
  destruct (Z.eq_dec (Z.land a b) 0) as [->|Hz]; [lia|].
  assert (Hnp : 0 < n).
  { destruct (Z.eq_dec n 0) as [->|]; [|lia]. change (2^0) with 1 in *. assert (a = 0) by lia. assert (b = 0) by lia. subst. now rewrite Z.land_0_l in Hz. }
  apply Z.log2_lt_pow2; [assert (0 <= Z.land a b) by (apply Z.land_nonneg; lia); lia|].
  eapply Z.le_lt_trans; [apply Z.log2_land; lia|].
  apply Z.min_lt_iff. left.
  destruct (Z.eq_dec a 0) as [->|]; [cbn; lia|]. apply Z.log2_lt_pow2; lia.
Qed.
Lemma lor_range a b n : 0 <= n -> 0 <= a < 2^n -> 0 <= b < 2^n -> 0 <= Z.lor a b < 2^n.
Proof.
  intros Hn Ha Hb. split; [apply Z.lor_nonneg; lia|].
  destruct (Z.eq_dec (Z.lor a b) 0) as [->|Hz]; [lia|].
  assert (Hnp : 0 < n).
  { destruct (Z.eq_dec n 0) as [->|]; [|lia]. change (2^0) with 1 in *. assert (a = 0) by lia. assert (b = 0) by lia. subst. now rewrite Z.lor_0_l in Hz. }
  apply Z.log2_lt_pow2; [assert (0 <= Z.lor a b) by (apply Z.lor_nonneg; lia); lia|].
  rewrite Z.log2_lor by lia. apply Z.max_lub_lt.
  - destruct (Z.eq_dec a 0) as [->|]; [cbn; lia|]. apply Z.log2_lt_pow2; lia.
  - destruct (Z.eq_dec b 0) as [->|]; [cbn; lia|]. apply Z.log2_lt_pow2; lia.
Qed.
Lemma lxor_range a b n : 0 <= n -> 0 <= a < 2^n -> 0 <= b < 2^n -> 0 <= Z.lxor a b < 2^n.
Proof.
  intros Hn Ha Hb. split; [apply Z.lxor_nonneg; lia|].
  destruct (Z.eq_dec (Z.lxor a b) 0) as [->|Hz]; [lia|].
  assert (Hnp : 0 < n).
  { destruct (Z.eq_dec n 0) as [->|]; [|lia]. change (2^0) with 1 in *. assert (a = 0) by lia. assert (b = 0) by lia. subst. now rewrite Z.lxor_0_l in Hz. }
  apply Z.log2_lt_pow2; [assert (0 <= Z.lxor a b) by (apply Z.lxor_nonneg; lia); lia|].
  eapply Z.le_lt_trans; [apply Z.log2_lxor; lia|]. apply Z.max_lub_lt.
  - destruct (Z.eq_dec a 0) as [->|]; [cbn; lia|]. apply Z.log2_lt_pow2; lia.
  - destruct (Z.eq_dec b 0) as [->|]; [cbn; lia|]. apply Z.log2_lt_pow2; lia.
Qed.

Lemma land1_mod2 x : Z.land x 1 = x mod 2.
Proof. change 1 with (2^1 - 1). apply land_ones_mod. lia. Qed.

(* ---- complementary masks ---- *)
Lemma land_split x M m n :
  Z.land M m = 0 -> Z.lor M m = 2^n - 1 -> 0 <= n -> 0 <= x < 2^n -> Z.land x M + Z.land x m = x.
Proof.
  intros Hd Hu Hn Hx.
  rewrite <- lor_disjoint_add.
  - rewrite <- Z.land_lor_distr_r, Hu, land_ones_mod by lia. apply Z.mod_small. lia.
  - rewrite Z.land_assoc, (Z.land_comm (Z.land x M) x), Z.land_assoc, Z.land_diag, <- Z.land_assoc, Hd.
    apply Z.land_0_r.
Qed.

(* mask of w ones shifted left by k *)
Lemma land_shifted_mask x b k : 0 <= k -> Z.land x (b * 2^k) = Z.land (x / 2^k) b * 2^k.
Proof.
  intros Hk. apply Z.bits_inj'. intros i Hi. rewrite Z.land_spec.
  destruct (Z.lt_ge_cases i k).
  - rewrite !Z.mul_pow2_bits_low by lia. apply andb_false_r.
  - rewrite !Z.mul_pow2_bits by lia. rewrite Z.land_spec, Z.div_pow2_bits by lia.
    replace (i - k + k) with i by lia. reflexivity.
Qed.
