(* Bit-level / arithmetic bridges used everywhere: masks as mod, shifts as
   mul/div, disjoint lor as +.  stdlib only. *)
From Coq Require Import Bool ZArith Lia ZifyBool List.
Open Scope bool_scope. Open Scope Z_scope.
Ltac Zify.zify_post_hook ::= Z.div_mod_to_equations.

Lemma land_ones_mod x k : 0 <= k -> Z.land x (2^k - 1) = x mod 2^k.
Proof. intros Hk. rewrite <- Z.land_ones by lia. now rewrite Z.ones_equiv, Z.sub_1_r. Qed.

Lemma lor_disjoint_add a b : Z.land a b = 0 -> Z.lor a b = a + b.
Proof.
  intros H. rewrite <- Z.lxor_lor by exact H.
  symmetry. apply Z.add_nocarry_lxor. exact H.
Qed.

Lemma shiftr_div x k : 0 <= k -> Z.shiftr x k = x / 2^k.
Proof. intros. apply Z.shiftr_div_pow2; lia. Qed.

Lemma shiftl_mul x k : 0 <= k -> Z.shiftl x k = x * 2^k.
Proof. intros. apply Z.shiftl_mul_pow2; lia. Qed.

Lemma testbit_div_mod x k : 0 <= k -> Z.testbit x k = ((x / 2^k) mod 2 =? 1).
Proof.
  intros Hk. rewrite Z.testbit_eqb by lia.
  destruct (Z.eqb_spec ((x / 2^k) mod 2) 1); lia.
Qed.

(* high part * 2^k and a low part < 2^k have disjoint bits *)
Lemma land_high_low a b k : 0 <= k -> 0 <= b < 2^k -> Z.land (a * 2^k) b = 0.
Proof.
  intros Hk Hb. apply Z.bits_inj'. intros n Hn.
  rewrite Z.land_spec, Z.bits_0.
  destruct (Z.lt_ge_cases n k) as [Hlt|Hge].
  - rewrite Z.mul_pow2_bits_low by lia. reflexivity.
  - assert (Z.testbit b n = false) as ->; [|apply andb_false_r].
    destruct (Z.eq_dec b 0) as [->|Hnz]; [apply Z.bits_0|].
    apply Z.bits_above_log2; [lia|].
    apply Z.log2_lt_pow2; [lia|].
    apply Z.lt_le_trans with (2^k); [lia|].
    apply Z.pow_le_mono_r; lia.
Qed.

Lemma lor_high_low a b k : 0 <= k -> 0 <= b < 2^k -> Z.lor (a * 2^k) b = a * 2^k + b.
Proof. intros. apply lor_disjoint_add. now apply land_high_low. Qed.

(* finite sweep support: every z in [0,n) is in the enumerated list *)
Definition zrange (n : nat) : list Z := map Z.of_nat (seq 0 n).

Lemma in_zrange n z : 0 <= z < Z.of_nat n -> In z (zrange n).
Proof.
  intros H. unfold zrange. apply in_map_iff. exists (Z.to_nat z). split.
  - lia.
  - apply in_seq. lia.
Qed.

Lemma forallb_zrange (P : Z -> bool) n :
  forallb P (zrange n) = true -> forall z, 0 <= z < Z.of_nat n -> P z = true.
Proof. intros H z Hz. rewrite forallb_forall in H. apply H. now apply in_zrange. Qed.
