#!/bin/sh
# dev helper: regenerate the Makefile and build one target
cd /verif/coq && coq_makefile -f _CoqProject $(find . -name '*.v' | sort) -o Makefile >/dev/null && timeout ${T:-900} make -j16 "$@" 2>&1 | tail -${N:-30}
