(* C16 — I/O ports behave as data latch + direction register + external pins. *)
From Coq Require Import Bool ZArith List.
From K Require Import Model.Machine Model.Bus Spec.PortSpec Proofs.PortProofs.
Import ListNotations.
Open Scope Z_scope.

(* Every history of CPU writes to DDR / DR (through Bus::write) and external pin changes (Bus::write_port) on a
   port k in 1-11 refines the abstract port (latch, ddr, pin): the abstraction of the final bus is the fold of
   the abstract transitions, and reading DR returns latch where DDR=1 and the pin where DDR=0. *)
Theorem port_refines :
  forall h b k, is_port k -> Forall ev_byte h -> port_inv b k ->
    exists b', crun_port b k h = Some b' /\ abs_port b' k = fold_left pstep h (abs_port b k) /\ port_inv b' k /\
               dr_of b' k = p_read (fold_left pstep h (abs_port b k)).
Proof. exact port_history_refines. Qed.

(* ports never influence each other *)
Theorem ports_independent :
  forall b k e b' j, is_port k -> is_port j -> j <> k -> cport_step b k e = Some b' ->
    abs_port b' j = abs_port b j /\ dr_of b' j = dr_of b j /\ ddr_of b' j = ddr_of b j.
Proof. exact ports_independent_proof. Qed.

(* the last announced value of a port is its current output (or none was announced and the output is 0);
   preserved by every event on the port itself and by every event on any other port *)
Theorem announced_is_current :
  forall b k e b', is_port k -> ev_byte e -> port_inv b k -> ann_inv b k ->
    cport_step b k e = Some b' -> ann_inv b' k.
Proof. exact announced_is_current_step. Qed.
Theorem announced_is_current_other_port :
  forall b j e b' k, is_port j -> is_port k -> k <> j -> ev_byte e -> port_inv b j -> ann_inv b k ->
    cport_step b j e = Some b' -> ann_inv b' k.
Proof. exact announced_is_current_other. Qed.

(* non-vacuity: the power-on bus satisfies the invariants; DR written while input, then switched to output *)
Definition bus0 : bus :=
  let z := snew (fun _ => 0) in mkBus z z z z z z z 0 nil timer0.
Example c16_example :
  match crun_port bus0 1 [PWriteDr 0xff; PWriteDdr 0xff] with
  | Some b => dr_of b 1 = 0xff /\ p_out (abs_port b 1) = 0xff
  | None => False
  end.
Proof. vm_compute. split; reflexivity. Qed.

Print Assumptions port_refines.
Print Assumptions ports_independent.
Print Assumptions announced_is_current.
Print Assumptions announced_is_current_other_port.
