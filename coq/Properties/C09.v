(* C09 — the guest address space is decoded exactly, without aliasing, big-endian. *)
From Coq Require Import Bool ZArith List.
From K Require Import Model.Machine Model.Bus Model.Addressing Spec.MemMap Proofs.BusProofs.
Import ListNotations.
Open Scope Z_scope.

(* An address (any integer) can be read / written iff it lies in one of the five mapped ranges. *)
Theorem accessible_iff_read :
  forall b a, (exists v, bus_read b a = Some v) <-> accessible a = true.
Proof. exact read_accessible. Qed.
Theorem accessible_iff_write :
  forall b a v, (exists b', bus_write b a v = Some b') <-> accessible a = true.
Proof. exact write_accessible. Qed.

(* Everything else - in particular every address at or above 2^24 - fails; a failing access
   returns no new bus, i.e. it changes nothing. *)
Theorem inaccessible_fails :
  forall b a v, accessible a = false -> bus_read b a = None /\ bus_write b a v = None.
Proof. intros b a v H. split; [now apply read_inaccessible|now apply write_inaccessible]. Qed.
Theorem beyond_24_bits_fails :
  forall b a v, 0x1000000 <= a -> bus_read b a = None /\ bus_write b a v = None.
Proof. intros b a v H. apply inaccessible_fails. now apply above_24_bits_inaccessible. Qed.

(* A byte written to plain storage is what a later read returns, and no other location changes. *)
Theorem read_after_write :
  forall b a v b' x, plain a = true -> bus_write b a v = Some b' ->
    bus_read b' x = if x =? a then Some v else bus_read b x.
Proof.
  intros b a v b' x Hp Hw. destruct (Z.eqb_spec x a) as [->|Hne].
  - eapply read_write_same; eauto.
  - eapply read_write_other; eauto.
Qed.

(* Any history of byte writes (to plain storage or to unmapped addresses) and reads behaves like
   the abstract partial map  address -> byte : same results, same final contents. *)
Theorem history_spec :
  forall h b, Forall plain_access h ->
    snd (crun b h) = snd (arun (abs_of b) h) /\
    forall y, abs_of (fst (crun b h)) y = fst (arun (abs_of b) h) y.
Proof. intros h b H. apply history_spec_gen; [exact H|reflexivity]. Qed.

(* 16- and 32-bit accesses are the big-endian composition of the consecutive bytes. *)
Theorem word_read_big_endian :
  forall s a b0 b1,
    bus_read (cbus s) a = Some b0 -> bus_read (cbus s) (a + 1) = Some b1 -> 0 <= b1 < 256 ->
    read_abs24_w a s = Ok (256 * b0 + b1) s.
Proof. exact read_w_big_endian. Qed.
Theorem long_read_big_endian :
  forall s a b0 b1 b2 b3,
    bus_read (cbus s) a = Some b0 -> bus_read (cbus s) (a + 1) = Some b1 ->
    bus_read (cbus s) (a + 2) = Some b2 -> bus_read (cbus s) (a + 3) = Some b3 ->
    0 <= b1 < 256 -> 0 <= b2 < 256 -> 0 <= b3 < 256 ->
    read_abs24_l a s = Ok (16777216 * b0 + 65536 * b1 + 256 * b2 + b3) s.
Proof. exact read_l_big_endian. Qed.
Theorem word_write_big_endian :
  forall s a v, 0 <= v < 65536 -> plain a = true -> plain (a + 1) = true ->
    exists b2, write_abs24_w a v s = Ok tt (set_bus b2 s) /\
               forall y, abs_of b2 y = fst (awrite (abs_of (cbus s)) 2 a v) y.
Proof. exact write_w_refines. Qed.
(* a word read that straddles the end of a mapped region fails after the first byte *)
Theorem word_read_straddle :
  forall s a b0, bus_read (cbus s) a = Some b0 -> accessible (a + 1) = false -> read_abs24_w a s = Err.
Proof. exact read_w_straddle. Qed.

(* non-vacuity *)
Example c09_example :
  plain 0xffbf20 = true /\ plain 0x5fffff = true /\ accessible 0x600000 = false /\
  plain_access (AWrite 0xffff1f 7) /\ accessible 0xfee000 = true /\ plain 0xfee000 = false.
Proof. repeat split; try (vm_compute; reflexivity). Qed.

Print Assumptions accessible_iff_read.
Print Assumptions accessible_iff_write.
Print Assumptions inaccessible_fails.
Print Assumptions beyond_24_bits_fails.
Print Assumptions read_after_write.
Print Assumptions history_spec.
Print Assumptions word_read_big_endian.
Print Assumptions long_read_big_endian.
Print Assumptions word_write_big_endian.
Print Assumptions word_read_straddle.
