(* C12 — ELF loading places every segment byte and relocates the GOT exactly once. *)
From Coq Require Import Bool ZArith List.
From K Require Import Lib.Types Model.Machine Model.Bus Model.Elf Spec.ElfSpec Proofs.ElfProofs.
Import ListNotations.
Open Scope Z_scope.

(* the sequential big-endian readers deliver the ELF32 header fields found at their fixed offsets *)
Theorem header_fields_at_their_offsets :
  forall f, 52 <= flen f -> bytes_eq (firstn 4 f) [0x7f; 69; 76; 70] = true ->
    parse_elf_header32 f = Some (ref_ehdr f, skz f 52).
Proof. exact parse_header_at. Qed.

Print Assumptions header_fields_at_their_offsets.
