(* C12 — a loaded program starts in the MES process environment it expects. *)
From Coq Require Import Bool ZArith List.
From K Require Import Lib.Types Model.Machine Model.Bus Model.Elf Model.Run Spec.ElfSpec Proofs.ElfProofs Proofs.ElfLoad Proofs.ElfFacts.
Import ListNotations.
Open Scope Z_scope.

(* the loader produces exactly the reference environment (registers, exit address, DRAM) on every file of the domain *)
Theorem load_environment :
  forall f args s,
    wf_elf f args = true -> (forall j, 0 <= j -> sget (b_dram (cbus s)) j = 0) ->
    exists s' d,
      load f args s = Some s' /\
      s' = set_exit (x_exit (expected_of f args (er s) (exit_addr s)))
             (set_regs (x_er (expected_of f args (er s) (exit_addr s))) (set_bus (bset_dram d (cbus s)) s)) /\
      forall j, 0 <= j -> sget d j = x_dram (expected_of f args (er s) (exit_addr s)) j.
Proof. exact load_refines_proof. Qed.

(* execution starts at the load base: ER2 = H'416900 whatever sections exist (run() takes PC from ER2) *)
Theorem entry_is_load_base :
  forall f args er0 exit0 got stk symt, get_er (x_er (expected_with f args er0 exit0 got stk symt)) 2 = BASE.
Proof. exact er2_is_base. Qed.

Theorem run_starts_at_er2 : forall s s', run_init s = Ok tt s' -> pc s' = get_er (er s) 2.
Proof. exact run_init_pc. Qed.

(* the exit address is the value of the (last) symbol named ___exit plus the load base *)
Theorem exit_is_symbol_plus_base :
  forall f args er0 exit0 got stk sy v, exit_value f sy = Some v ->
    x_exit (expected_with f args er0 exit0 got stk (Some sy)) = BASE + v.
Proof. exact exit_from_symbol. Qed.

Theorem er5_is_got_address :
  forall f args er0 exit0 g stk symt, get_er (x_er (expected_with f args er0 exit0 (Some g) stk symt)) 5 = BASE + sh_addr g.
Proof. exact er5_is_got. Qed.

(* SP = 8 below the 4-aligned end of the stack region, which begins where the image (highest PT_LOAD extent) ends *)
Theorem sp_below_stack_end :
  forall f args er0 exit0 got s symt,
    get_er (x_er (expected_with f args er0 exit0 got (Some s) symt)) 7 = stack_end (ref_phdrs f) s - 8.
Proof. exact er7_is_sp. Qed.

(* stack [BASE + image end, stack_end), TCB [stack_end, stack_end + 88), argument block from argv_at: in that order,
   4-byte aligned, without overlap *)
Theorem layout_above_image :
  forall phs s, 0 <= sh_addr s ->
    BASE + img_end phs + sh_addr s <= stack_end phs s < BASE + img_end phs + sh_addr s + 4 /\
    stack_end phs s mod 4 = 0 /\
    stack_end phs s + TCB <= argv_at phs s < stack_end phs s + TCB + 4 /\ argv_at phs s mod 4 = 0.
Proof. exact layout_order. Qed.

(* the image ends at the highest PT_LOAD extent, wherever that header is in the table *)
Theorem image_end_is_highest_extent :
  forall phs ph, In ph phs -> is_load ph = true -> p_paddr ph + p_memsz ph <= img_end phs.
Proof. exact img_end_ge. Qed.

(* argc = 1 + number of words; argv = ER1 *)
Theorem argc_counts_words :
  forall f args er0 exit0 got s symt,
    get_er (x_er (expected_with f args er0 exit0 got (Some s) symt)) 0 = 1 + Z.of_nat (length (words_of args [])).
Proof. exact er0_is_argc. Qed.
Theorem argv_in_er1 :
  forall f args er0 exit0 got s symt,
    get_er (x_er (expected_with f args er0 exit0 got (Some s) symt)) 1 = argv_at (ref_phdrs f) s.
Proof. exact er1_is_argv. Qed.

(* the block: argc pointers, a null pointer, then the NUL-terminated strings back to back; pointer i is the address
   of string i *)
Theorem arg_block_shape :
  forall at_ ws, arg_block at_ ws = ptrs (at_ + 4 * (Z.of_nat (length ws) + 1)) ws ++ [0; 0; 0; 0] ++ strs ws.
Proof. exact arg_block_eq. Qed.
Theorem pointer_i_names_string_i :
  forall ws a i w, nth_error ws i = Some w -> nth_error (str_addrs a ws) i = Some (a + strs_len (firstn i ws)).
Proof. exact str_addrs_nth. Qed.

(* the words are the maximal runs of non-blank bytes: none empty, none containing a blank, nothing lost *)
Theorem words_are_blank_free :
  forall l cur, forallb (fun c => negb (blank c)) cur = true ->
    Forall (fun w => w <> [] /\ forallb (fun c => negb (blank c)) w = true) (words_of l cur).
Proof. exact words_of_sound. Qed.
Theorem words_keep_every_non_blank_byte :
  forall l cur, cur ++ filter (fun c => negb (blank c)) l = concat (words_of l cur).
Proof. exact words_of_content. Qed.

(* the implementation's splitter (reversed accumulator) computes the same words *)
Theorem splitter_agrees : forall args, prog_name :: split_ws args [] = argv_words args.
Proof. exact argv_words_model. Qed.

(* non-vacuity *)
Example c12_words : words_of [32; 97; 98; 9; 9; 99; 32] [] = [[97; 98]; [99]].
Proof. reflexivity. Qed.
Example c12_block : arg_block 0x420000 [[112]; [97; 98]] =
  [0; 0x42; 0; 12; 0; 0x42; 0; 14; 0; 0; 0; 0; 112; 0; 97; 98; 0].
Proof. reflexivity. Qed.

Print Assumptions load_environment.
Print Assumptions entry_is_load_base.
Print Assumptions er5_is_got_address.
Print Assumptions run_starts_at_er2.
Print Assumptions exit_is_symbol_plus_base.
Print Assumptions sp_below_stack_end.
Print Assumptions layout_above_image.
Print Assumptions image_end_is_highest_extent.
Print Assumptions argc_counts_words.
Print Assumptions argv_in_er1.
Print Assumptions arg_block_shape.
Print Assumptions pointer_i_names_string_i.
Print Assumptions words_are_blank_free.
Print Assumptions words_keep_every_non_blank_byte.
Print Assumptions splitter_agrees.
