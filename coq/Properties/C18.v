(* C18 — control-socket lines apply exactly once; outgoing messages are framed reversibly. *)
From Coq Require Import Bool ZArith List.
From K Require Import Lib.Types Model.Machine Model.Bus Model.Run Proofs.RunProofs.
Import ListNotations.
From K Require Import Proofs.HexProofs.
Open Scope Z_scope.

(* however the received lines are partitioned into polling batches, the resulting state (memory, port inputs,
   pause flag, stop flag) is that of processing the whole sequence in arrival order *)
Theorem batching_irrelevant :
  forall parts c, fold_left (fun st b => process_batch b st) parts c = process_batch (concat parts) c.
Proof. exact batching_irrelevant_proof. Qed.

(* after a stop, later lines are moot *)
Theorem stop_absorbs : forall ls c, c_stopped c = true -> process_batch ls c = c.
Proof. exact process_batch_stopped. Qed.

(* a line that is not a cmd / u8 / ioport line is ignored and influences nothing *)
Theorem unknown_lines_ignored :
  forall line c f0 rest, split_colon line = f0 :: rest ->
    bytes_eqb f0 w_cmd = false -> bytes_eqb f0 w_u8 = false -> bytes_eqb f0 w_ioport = false -> apply_line line c = c.
Proof. exact unknown_line_ignored. Qed.

(* cmd:pause / cmd:start / cmd:stop *)
Theorem commands :
  forall c, c_stopped c = false ->
    apply_line (w_cmd ++ [58] ++ w_pause) c = mkCtl (c_cpu c) true false /\
    apply_line (w_cmd ++ [58] ++ w_start) c = mkCtl (c_cpu c) false false /\
    apply_line (w_cmd ++ [58] ++ w_stop) c = mkCtl (c_cpu c) (c_paused c) true.
Proof. intros c H. repeat split; [now apply cmd_pause|now apply cmd_start|now apply cmd_stop]. Qed.

(* framing: escape = body ++ newline; the body contains no raw newline; unescaping the body recovers the text *)
Theorem unescape_escape : forall m, escape m = escape_body m ++ [10] /\ unescape (escape_body m) = m.
Proof. intros m. split; [reflexivity|apply unescape_escape_proof]. Qed.
Theorem escape_one_line : forall m, ~ In 10 (escape_body m).
Proof. exact escape_one_line_proof. Qed.

Example c18_example : escape [97; 92; 10; 98] = [97; 92; 92; 92; 110; 98; 10] /\ unescape [97; 92; 92; 92; 110; 98] = [97; 92; 10; 98].
Proof. split; reflexivity. Qed.

(* the hexadecimal fields of `u8:<addr>:<value>` and `ioport:<port>:<value>`: the digit loop with its running overflow test
   accepts exactly the non-empty hexadecimal numerals (either case, optional single '+') not exceeding the field's maximum
   (H'FFFFFFFF for addresses, H'FF for values and ports) and yields their value; anything else makes the line malformed *)
Theorem hex_field_value :
  forall l max, 0 <= max ->
    parse_hex l max =
    let body := match l with 43 :: t => t | _ => l end in
    match body with
    | [] => None
    | _ => match digits_of body with
           | Some ds => if num ds 0 <=? max then Some (num ds 0) else None
           | None => None
           end
    end.
Proof. exact parse_hex_spec. Qed.

Print Assumptions batching_irrelevant.
Print Assumptions stop_absorbs.
Print Assumptions unknown_lines_ignored.
Print Assumptions commands.
Print Assumptions unescape_escape.
Print Assumptions escape_one_line.
Print Assumptions hex_field_value.
