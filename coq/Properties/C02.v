(* C02 — arithmetic instructions produce the manual's result and H,N,Z,V,C flags. *)
From Coq Require Import Bool ZArith List.
From K Require Import Lib.Types Model.Machine Model.Alu Model.Exec Spec.ISA Proofs.FlagProofs Proofs.AluProofs.
From K Require Import Model.Bus Model.Cost Model.Addressing Proofs.RegProofs Proofs.StepProofs.
From K Require Import Model.Cost Model.Addressing Model.Exec Proofs.MemProofs Proofs.StepProofs Proofs.CtlProofs Proofs.StepRefines.
From K Require Import Proofs.MovProofs Proofs.StepRefinesCtl Proofs.StepRefines2.
From K Require Import Proofs.StepRefines4.
From K Require Import Proofs.StepRefines6.
Open Scope Z_scope.

(* ADD / SUB / CMP / ADDX: for every width 8, 16, 32 (ADDX: 8), all operands and every CCR value the
   code-style computation (signed view + overflowing_add/sub, masked partial sums, comparison against the
   mask) yields the reference result and exactly the reference's H, N, Z, V, C; all other CCR bits are
   those of the reference (which leaves them untouched, see set_flag_only_that_flag). *)
Theorem arith2_kernel :
  forall o n a b c, (o = AAdd \/ o = ASub \/ o = ACmp \/ o = AAddx) ->
    width n -> (o = AAddx -> n = 8) -> 0 <= a < 2^n -> 0 <= b < 2^n -> 0 <= c < 256 ->
    alu2_fun o n a b c = alu2_ref o n a b c.
Proof. intros o n a b c _. apply alu2_fun_spec. Qed.

(* NEG, INC #1/#2, DEC #1/#2 *)
Theorem arith1_kernel :
  forall o n v c, (o = UNeg \/ o = UInc1 \/ o = UInc2 \/ o = UDec1 \/ o = UDec2) ->
    width n -> alu1_defined o n -> 0 <= v < 2^n -> 0 <= c < 256 ->
    alu1_fun o n v c = alu1_ref o n v c.
Proof.
  intros o n v c Ho Hn Hd Hv Hc. apply alu1_fun_spec; try assumption.
  intros E. subst o. destruct Ho as [H|[H|[H|[H|H]]]]; discriminate H.
Qed.

(* DIVXU: quotient low / remainder high, N and Z from the divisor (non-zero divisor, fitting quotient) *)
Theorem divxu_kernel :
  forall n rd rs c, n = 8 \/ n = 16 -> 0 <= rd < 2^(2*n) -> 0 < rs < 2^n -> rd / rs < 2^n -> 0 <= c < 256 ->
    divxu_proc n rd rs c = ((rd mod rs) * 2^n + rd / rs, set_flag fZ false (set_flag fN (neg_bit n rs) c)).
Proof. exact divxu_spec. Qed.

(* a flag update of the reference changes that flag and no other CCR bit *)
Theorem set_flag_only_that_flag :
  forall t b c u, 0 <= t < 8 -> 0 <= c < 256 -> 0 <= u < 8 ->
    flag (set_flag t b c) u = if u =? t then b else flag c u.
Proof. exact set_flag_frame. Qed.

Example c02_example : alu2_fun AAdd 8 0x7f 0x01 0 = (0x80, 0x2a) /\ alu2_fun AAddx 8 0xff 0x00 0x05 = (0x00, 0x25).
Proof. split; vm_compute; reflexivity. Qed.


(* instruction level: ADD / SUB / CMP / ADDX Rs,Rd for B, W and L.  On any state whose registers are 32-bit
   values and whose CCR is a byte, the handler the dispatch selects reads the registers named by the full
   source / destination fields, writes only the destination (nothing for CMP), updates the CCR as the
   reference does and charges one instruction fetch. *)
Theorem arith_rr_refines :
  forall o z op s n,
    (o = AAdd \/ o = ASub \/ o = ACmp \/ o = AAddx) ->
    cpu_ok s ->
    let rs := match z with SL => Z.land (nib op 3) 7 | _ => nib op 3 end in
    let rd := nib op 4 in
    field_ok z rs -> field_ok z rd -> (o = AAddx -> z = SB) ->
    cs KI 1 s = Ok n s ->
    run_tag (TAlu2Rn o z) op 0 0 s =
    Ok n (let '(r, c) := alu2_ref o (bits_of z) (reg z s rd) (reg z s rs) (ccr s) in
          with_ccr c (match o with ACmp => s | _ => set_reg z s rd r end)).
Proof. intros o z op s n _. apply alu2_rn_refines. Qed.

(* instruction level: NEG, INC #1/#2, DEC #1/#2 *)
Theorem arith_unary_refines :
  forall o z op s n,
    (o = UNeg \/ o = UInc1 \/ o = UInc2 \/ o = UDec1 \/ o = UDec2) ->
    cpu_ok s -> let rd := nib op 4 in
    field_ok z rd -> alu1_defined o (bits_of z) ->
    cs KI 1 s = Ok n s ->
    run_tag (TAlu1 o z) op 0 0 s =
    Ok n (let '(r, c) := alu1_ref o (bits_of z) (reg z s rd) (ccr s) in with_ccr c (set_reg z s rd r)).
Proof.
  intros o z op s n Ho Hok rd Hrd Hd Hcs. apply alu1_refines; try assumption.
  intros E. subst o. destruct Ho as [H|[H|[H|[H|H]]]]; discriminate H.
Qed.

(* ---- from the instruction word in memory to the reference semantics, in one statement ----
   s is ANY machine state whose PC is even and whose instruction word w can be fetched; w1..w4 are whatever follows it.
   If the operation-code map decodes w as the two-byte instruction i, then one step of the model (fetch, dispatch, handler,
   charge of one instruction-fetch cycle at the instruction's address) ends in exactly the state the reference semantics
   sem_ref assigns (plus the bookkeeping field operating_pc). *)
Theorem step_arith_logic_register :
  forall s w w1 w2 w3 w4 o z rs rd n,
    cpu_ok s -> bus_bytes_ok s -> fault s = false -> pc s mod 2 = 0 -> 0 <= pc s -> pc s + 2 < 4294967296 ->
    mem_read SW s (pc s) = Some w ->
    decode_ref w w1 w2 w3 w4 = Some (IAlu2R o z rs rd, 2) ->
    cs KI 1 (post_fetch s) = Ok n (post_fetch s) ->
    exists s', sem_ref (IAlu2R o z rs rd) 2 s = Some s' /\ step s = Ok n (set_opc (pc s) s').
Proof. exact step_alu2_rr_proof. Qed.

Theorem step_unary_register :
  forall s w w1 w2 w3 w4 o z rd n,
    cpu_ok s -> bus_bytes_ok s -> fault s = false -> pc s mod 2 = 0 -> 0 <= pc s -> pc s + 2 < 4294967296 ->
    mem_read SW s (pc s) = Some w ->
    decode_ref w w1 w2 w3 w4 = Some (IAlu1 o z rd, 2) ->
    (o = UShal -> shal_known (bits_of z) (reg z s rd) = false) ->
    cs KI 1 (post_fetch s) = Ok n (post_fetch s) ->
    exists s', sem_ref (IAlu1 o z rd) 2 s = Some s' /\ step s = Ok n (set_opc (pc s) s').
Proof. exact step_alu1_proof. Qed.

(* ADD ADDX CMP AND OR XOR #xx:8,Rd *)
Theorem step_arith_logic_immediate_byte :
  forall s w w1 w2 w3 w4 o imm rd n,
    cpu_ok s -> bus_bytes_ok s -> fault s = false -> pc s mod 2 = 0 -> 0 <= pc s -> pc s + 2 < 4294967296 ->
    mem_read SW s (pc s) = Some w ->
    decode_ref w w1 w2 w3 w4 = Some (IAlu2I o SB imm rd, 2) ->
    cs KI 1 (post_fetch s) = Ok n (post_fetch s) ->
    exists s', sem_ref (IAlu2I o SB imm rd) 2 s = Some s' /\ step s = Ok n (set_opc (pc s) s').
Proof. exact step_alu2_imm_b_proof. Qed.

(* ADDS / SUBS #1/2/4,ERd: no flag changes, full 32-bit register *)
Theorem step_adds_subs :
  forall s w w1 w2 w3 w4 (sub : bool) k rd n,
    bus_bytes_ok s -> fault s = false -> pc s mod 2 = 0 -> 0 <= pc s -> pc s + 2 < 4294967296 ->
    mem_read SW s (pc s) = Some w ->
    decode_ref w w1 w2 w3 w4 = Some ((if sub then ISubs k rd else IAdds k rd), 2) ->
    cs KI 1 (post_fetch s) = Ok n (post_fetch s) ->
    exists s', sem_ref (if sub then ISubs k rd else IAdds k rd) 2 s = Some s' /\ step s = Ok n (set_opc (pc s) s').
Proof. exact step_adds_subs_proof. Qed.

(* MULXU.B / MULXU.W *)
Theorem step_mulxu :
  forall s w w1 w2 w3 w4 z rs rd n,
    cpu_ok s -> bus_bytes_ok s -> fault s = false -> pc s mod 2 = 0 -> 0 <= pc s -> pc s + 2 < 4294967296 ->
    mem_read SW s (pc s) = Some w ->
    decode_ref w w1 w2 w3 w4 = Some (IMulxu z rs rd, 2) -> z <> SL ->
    mul_suffix z (post_fetch s) = Ok n (post_fetch s) ->
    exists s', sem_ref (IMulxu z rs rd) 2 s = Some s' /\ step s = Ok n (set_opc (pc s) s').
Proof. exact step_mulxu_proof. Qed.

(* DIVXU.B with non-zero divisor and fitting quotient *)
Theorem step_divxu_byte :
  forall s w w1 w2 w3 w4 rs rd n s',
    cpu_ok s -> bus_bytes_ok s -> fault s = false -> pc s mod 2 = 0 -> 0 <= pc s -> pc s + 2 < 4294967296 ->
    mem_read SW s (pc s) = Some w ->
    decode_ref w w1 w2 w3 w4 = Some (IDivxu SB rs rd, 2) ->
    sem_ref (IDivxu SB rs rd) 2 s = Some s' ->
    mul_suffix SB (post_fetch s) = Ok n (post_fetch s) ->
    step s = Ok n (set_opc (pc s) s').
Proof. exact step_divxu_b_proof. Qed.

(* ADD CMP SUB OR XOR AND .W #xx:16,Rd - both instruction words in memory *)
Theorem step_arith_logic_immediate_word :
  forall s w d w2 w3 w4 o imm rd n,
    cpu_ok s -> bus_bytes_ok s -> fault s = false -> pc s mod 2 = 0 -> 0 <= pc s -> pc s + 4 < 4294967296 ->
    mem_read SW s (pc s) = Some w -> mem_read SW s (pc s + 2) = Some d ->
    decode_ref w d w2 w3 w4 = Some (IAlu2I o SW imm rd, 4) ->
    cs KI 2 (post_fetch2 s) = Ok n (post_fetch2 s) ->
    exists s', sem_ref (IAlu2I o SW imm rd) 4 s = Some s' /\ step s = Ok n (set_opc (pc s + 2) s').
Proof. exact step_alu2_imm_w_proof. Qed.

(* DIVXU.W with non-zero divisor and fitting quotient *)
Theorem step_divxu_word :
  forall s w w1 w2 w3 w4 rs rd n s',
    cpu_ok s -> bus_bytes_ok s -> fault s = false -> pc s mod 2 = 0 -> 0 <= pc s -> pc s + 2 < 4294967296 ->
    mem_read SW s (pc s) = Some w ->
    decode_ref w w1 w2 w3 w4 = Some (IDivxu SW rs rd, 2) ->
    sem_ref (IDivxu SW rs rd) 2 s = Some s' ->
    mul_suffix SW (post_fetch s) = Ok n (post_fetch s) ->
    step s = Ok n (set_opc (pc s) s').
Proof. exact step_divxu_w_proof. Qed.

(* ADD CMP SUB OR XOR AND .L #xx:32,ERd - all three instruction words in memory, any state *)
Theorem step_arith_logic_immediate_long :
  forall s w h l w3 w4 o imm rd n,
    cpu_ok s -> bus_bytes_ok s -> fault s = false -> pc s mod 2 = 0 -> 0 <= pc s -> pc s + 6 < 4294967296 ->
    mem_read SW s (pc s) = Some w -> mem_read SW s (pc s + 2) = Some h -> mem_read SW s (pc s + 4) = Some l ->
    decode_ref w h l w3 w4 = Some (IAlu2I o SL imm rd, 6) ->
    cs KI 3 (post_fetch3 s) = Ok n (post_fetch3 s) ->
    exists s', sem_ref (IAlu2I o SL imm rd) 6 s = Some s' /\ step s = Ok n (set_opc (pc s + 4) s').
Proof. exact step_alu2_imm_l_proof. Qed.

Print Assumptions arith2_kernel.
Print Assumptions arith1_kernel.
Print Assumptions divxu_kernel.
Print Assumptions set_flag_only_that_flag.
Print Assumptions arith_rr_refines.
Print Assumptions arith_unary_refines.
Print Assumptions step_arith_logic_register.
Print Assumptions step_unary_register.
Print Assumptions step_arith_logic_immediate_byte.
Print Assumptions step_adds_subs.
Print Assumptions step_mulxu.
Print Assumptions step_divxu_byte.
Print Assumptions step_arith_logic_immediate_word.
Print Assumptions step_divxu_word.
Print Assumptions step_arith_logic_immediate_long.
