(* C04 — bit-manipulation instructions affect exactly the addressed bit or flag. *)
From Coq Require Import Bool ZArith List.
From K Require Import Lib.Types Model.Machine Model.Alu Model.Exec Spec.ISA Proofs.FlagProofs Proofs.BitProofs.
From K Require Import Model.Bus Model.Cost Model.Addressing Proofs.RegProofs Proofs.StepProofs.
From K Require Import Model.Cost Model.Addressing Model.Exec Proofs.MemProofs Proofs.StepProofs Proofs.CtlProofs Proofs.StepRefines.
From K Require Import Proofs.BitMemProofs.
From K Require Import Proofs.StepRefinesBit.
Open Scope Z_scope.

(* all 14 operations x 256 operand values x 8 bit numbers x 256 CCR values: the shift/mask code of the
   model computes the reference's new operand byte and new CCR *)
Theorem bit_kernel :
  forall o v k c, 0 <= v < 256 -> 0 <= k < 8 -> 0 <= c < 256 ->
    bop_fun o v k c = bit_ref o v k c /\ bop_writes o = bit_writes o.
Proof. exact bop_fun_spec. Qed.

(* the reference's bit write changes exactly bit k of the byte *)
Theorem exactly_the_addressed_bit :
  forall v k b, 0 <= v < 256 -> 0 <= k < 8 ->
    0 <= with_bit v k b < 256 /\ bitv (with_bit v k b) k = b /\
    forall j, 0 <= j < 8 -> j <> k -> bitv (with_bit v k b) j = bitv v j.
Proof. exact with_bit_exact. Qed.

(* flags: only the named one changes *)
Theorem only_the_named_flag :
  forall t b c u, 0 <= t < 8 -> 0 <= c < 256 -> 0 <= u < 8 ->
    flag (set_flag t b c) u = if u =? t then b else flag c u.
Proof. exact set_flag_frame. Qed.

Example c04_example : bop_fun BSt 0xff 3 0x00 = (0xf7, 0x00) /\ bop_fun BIXor 0x10 4 0x01 = (0x10, 0x01).
Proof. split; vm_compute; reflexivity. Qed.


(* instruction level, register operand: all 14 operations, bit number from the immediate field or from
   the low three bits of any value of the bit-number register *)
Theorem bit_register_refines :
  forall o op s n (regsrc : bool),
    cpu_ok s ->
    let rd := nib op 4 in
    let k := if regsrc then reg8 s (nib op 3) mod 8 else Z.land (nib op 3) 7 in
    0 <= rd < 16 -> 0 <= nib op 3 < 16 ->
    cs KI 1 s = Ok n s ->
    run_tag (if regsrc then TBitRnRn o else TBitRnImm o) op 0 0 s =
    Ok n (let '(v, c) := bit_ref o (reg8 s rd) k (ccr s) in
          with_ccr c (if bit_writes o then set_reg8 s rd v else s)).
Proof. exact bit_rn_refines. Qed.

(* ---- from the instruction word in memory to the reference semantics, in one statement ----
   s is ANY machine state whose PC is even and whose instruction word w can be fetched; w1..w4 are whatever follows it.
   If the operation-code map decodes w as the two-byte instruction i, then one step of the model (fetch, dispatch, handler,
   charge of one instruction-fetch cycle at the instruction's address) ends in exactly the state the reference semantics
   sem_ref assigns (plus the bookkeeping field operating_pc). *)
Theorem step_bit_register :
  forall s w w1 w2 w3 w4 o b rd n,
    cpu_ok s -> bus_bytes_ok s -> fault s = false -> pc s mod 2 = 0 -> 0 <= pc s -> pc s + 2 < 4294967296 ->
    mem_read SW s (pc s) = Some w ->
    decode_ref w w1 w2 w3 w4 = Some (IBit o b (BTReg rd), 2) ->
    cs KI 1 (post_fetch s) = Ok n (post_fetch s) ->
    exists s', sem_ref (IBit o b (BTReg rd)) 2 s = Some s' /\ step s = Ok n (set_opc (pc s) s').
Proof. exact step_bit_reg_proof. Qed.

(* ---- memory operands (@ERd, @aa:8), immediate or register bit number: the handler = the reference, for every state ----
   (op: first word, op2: the operation word after the 7C/7D/7E/7F prefix; s: after both words have been fetched) *)
Theorem bit_memory_register_indirect :
  forall o op op2 (regsrc : bool) s,
    cpu_ok s -> bus_bytes_ok s -> 0 <= nib op 3 < 8 ->
    let a := ea_addr SB s (EInd (nib op 3)) in
    let k := if regsrc then reg8 s (nib op2 3) mod 8 else Z.land (nib op2 3) 7 in
    run_tag (if regsrc then TBitErnRn o else TBitErnImm o) op op2 0 s = then_charge (bit_mem_ref o a k s) (bit_charge o a).
Proof. exact bit_ern_refines_proof. Qed.

Theorem bit_memory_absolute8 :
  forall o op op2 (regsrc : bool) s,
    cpu_ok s -> bus_bytes_ok s -> 0 <= lo8 op < 256 ->
    let a := abs8 (lo8 op) in
    let k := if regsrc then reg8 s (nib op2 3) mod 8 else Z.land (nib op2 3) 7 in
    run_tag (if regsrc then TBitAbsRn o else TBitAbsImm o) op op2 0 s = then_charge (bit_mem_ref o a k s) (bit_charge o a).
Proof. exact bit_abs_refines_proof. Qed.

(* bit_mem_ref is the reference semantics of these instructions up to the PC update *)
Theorem bit_memory_reference :
  forall o b e len s,
    sem_ref (IBit o b (BTMem e)) len s =
    option_map (with_pc (pc s + len))
      (bit_mem_ref o (ea_addr SB s e) (match b with BImm k => k | BReg rn => reg8 s rn mod 8 end) s).
Proof. exact bit_mem_ref_sem. Qed.

(* BSET BNOT BCLR BTST BST BIST BLD BILD BAND BIAND BOR BIOR BXOR BIXOR on @ERd (prefix 7Cr0 / 7Dr0), immediate or register
   bit number: both instruction words in memory, any state *)
Theorem step_bit_memory_register_indirect :
  forall s w0 w1 w2 w3 w4 o b r n s',
    cpu_ok s -> bus_bytes_ok s -> fault s = false -> pc s mod 2 = 0 -> 0 <= pc s -> pc s + 4 < 4294967296 ->
    mem_read SW s (pc s) = Some w0 -> mem_read SW s (pc s + 2) = Some w1 ->
    decode_ref w0 w1 w2 w3 w4 = Some (IBit o b (BTMem (EInd r)), 4) ->
    sem_ref (IBit o b (BTMem (EInd r))) 4 s = Some s' ->
    bit_charge o (ea_addr SB s (EInd r)) (set_opc (pc s + 2) s') = Ok n (set_opc (pc s + 2) s') ->
    step s = Ok n (set_opc (pc s + 2) s').
Proof. exact step_bit_ern_proof. Qed.

(* the same fourteen operations on @aa:8 (prefix 7Eaa / 7Faa), immediate or register bit number: both instruction words in
   memory, any state, any aa (the second-level sweep at 7E00 / 7F00 is transported to every aa by the structure of the map) *)
Theorem step_bit_memory_absolute8 :
  forall s w0 w1 w2 w3 w4 o b a n s',
    cpu_ok s -> bus_bytes_ok s -> fault s = false -> pc s mod 2 = 0 -> 0 <= pc s -> pc s + 4 < 4294967296 ->
    mem_read SW s (pc s) = Some w0 -> mem_read SW s (pc s + 2) = Some w1 ->
    decode_ref w0 w1 w2 w3 w4 = Some (IBit o b (BTMem (EAbs a)), 4) ->
    sem_ref (IBit o b (BTMem (EAbs a))) 4 s = Some s' ->
    bit_charge o a (set_opc (pc s + 2) s') = Ok n (set_opc (pc s + 2) s') ->
    step s = Ok n (set_opc (pc s + 2) s').
Proof. exact step_bit_abs_proof. Qed.

Print Assumptions bit_kernel.
Print Assumptions exactly_the_addressed_bit.
Print Assumptions only_the_named_flag.
Print Assumptions bit_register_refines.
Print Assumptions step_bit_register.
Print Assumptions bit_memory_register_indirect.
Print Assumptions bit_memory_absolute8.
Print Assumptions bit_memory_reference.
Print Assumptions step_bit_memory_register_indirect.
Print Assumptions step_bit_memory_absolute8.
