(* C08 — effective addresses are formed as the manual defines, modulo 2^24. *)
From Coq Require Import Bool ZArith List.
From K Require Import Lib.Types Model.Machine Model.Bus Model.Addressing Model.Exec Spec.ISA Proofs.RegProofs Proofs.EaProofs.
From K Require Import Model.Cost Model.Alu Model.Exec Proofs.MemProofs Proofs.CtlProofs Proofs.StcProofs.
From K Require Import Model.Machine Proofs.StepProofs Proofs.StepRefines Proofs.StepRefinesStc.
From K Require Import Spec.ISA Model.Exec Model.Cost Proofs.CtlProofs Proofs.StcExtProofs Proofs.StepRefinesStcExt.
Open Scope Z_scope.

Theorem ea_register_indirect :
  forall r s, 0 <= r < 8 -> get_addr_ern r s = Ok (reg32 s r mod A24) s.
Proof. exact ea_ern. Qed.
Theorem ea_displacement_16 :
  forall r d s, 0 <= r < 8 -> 0 <= d < 65536 -> get_addr_disp16 r d s = Ok ((reg32 s r + sx 16 d) mod A24) s.
Proof. exact ea_disp16. Qed.
Theorem ea_displacement_24 :
  forall r d s, 0 <= r < 8 -> 0 <= d < 16777216 -> get_addr_disp24 r d s = Ok ((reg32 s r + sx 24 d) mod A24) s.
Proof. exact ea_disp24. Qed.
Theorem ea_absolute_8 : forall a, 0 <= a < 256 -> get_addr_abs8 a = 0xffff00 + a.
Proof. exact ea_abs8. Qed.
Theorem ea_absolute_16 : forall a, 0 <= a < 65536 -> get_addr_abs16 a = (sx 16 a) mod A24.
Proof. exact ea_abs16. Qed.
(* the upper 8 bits of an address register never change which location is accessed *)
Theorem upper_byte_irrelevant :
  forall z s s' e, (forall r, reg32 s r mod A24 = reg32 s' r mod A24) -> ea_addr z s e = ea_addr z s' e.
Proof. exact upper_byte_irrelevant_ea. Qed.
(* post-increment / pre-decrement update the full 32-bit register by the operand size *)
Theorem post_increment_register :
  forall z s r, 0 <= r < 8 -> reg32 (ea_update z s (EPostInc r)) r = (reg32 s r + bytes_of z) mod 4294967296.
Proof. exact ea_update_inc. Qed.
Theorem pre_decrement_register :
  forall z s r, 0 <= r < 8 -> reg32 (ea_update z s (EPreDec r)) r = (reg32 s r - bytes_of z) mod 4294967296.
Proof. exact ea_update_dec. Qed.

Example c08_example : get_addr_abs16 0x8000 = 0xff8000 /\ sx 24 0x800000 = -8388608.
Proof. split; vm_compute; reflexivity. Qed.

(* STC.W CCR,@ERd: the CCR word is stored at the low 24 bits of ERd, nothing else changes *)
Theorem stc_register_indirect :
  forall op op2 s, 0 <= ccr s < 256 ->
    let r := Z.land (nib op2 3) 7 in
    run_tag TStcErn op op2 0 s =
    then_charge (mem_write SW s (ea_addr SW s (EInd r)) (ccr s))
                (i <- cs KI 2 ;; d <- csa KM 1 (ea_addr SW s (EInd r)) ;; ret (u8add i d)).
Proof. exact stc_ern_refines_proof. Qed.

(* KNOWN FINDING stc_predec, as a theorem about the code's model: the @-ERd encoding of STC.W stores AT ERd and then adds 2
   (post-increment) instead of pre-decrementing *)
Theorem stc_predec_is_postinc :
  forall op op2 s, 0 <= ccr s < 256 ->
    let r := Z.land (nib op2 3) 7 in
    run_tag TStcInc op op2 0 s =
    then_charge (option_map (fun s1 => set_reg32 s1 r ((reg32 s r + 2) mod 4294967296)) (mem_write SW s (reg32 s r mod A24) (ccr s)))
                (i <- cs KI 2 ;; d <- csa KM 1 (reg32 s r mod A24) ;; n <- cs KN 2 ;; ret (u8add (u8add i d) n)).
Proof. exact stc_predec_is_postinc_proof. Qed.

(* STC.W CCR,@ERd (prefix 0140): both instruction words in memory, any state *)
Theorem step_stc_register_indirect :
  forall s w1 w2 w3 w4 r n s',
    cpu_ok s -> bus_bytes_ok s -> fault s = false -> pc s mod 2 = 0 -> 0 <= pc s -> pc s + 4 < 4294967296 ->
    mem_read SW s (pc s) = Some 0x0140 -> mem_read SW s (pc s + 2) = Some w1 ->
    decode_ref 0x0140 w1 w2 w3 w4 = Some (IStcW (EInd r), 4) ->
    sem_ref (IStcW (EInd r)) 4 s = Some s' ->
    (i <- cs KI 2 ;; d <- csa KM 1 (ea_addr SW s (EInd r)) ;; ret (u8add i d)) (set_opc (pc s + 2) s') = Ok n (set_opc (pc s + 2) s') ->
    step s = Ok n (set_opc (pc s + 2) s').
Proof. exact step_stc_ern_proof. Qed.

(* STC.W CCR,<ea> with a displacement or an absolute address: from the instruction words in memory (0140 prefix, operation
   word, extension words) to the reference store; [stc_charge k a] = k fetch cycles + one word cycle at a *)
Theorem step_stc_word_displacement16 :
  forall s w1 d w3 w4 r disp n s',
  cpu_ok s -> bus_bytes_ok s -> fault s = false -> pc s mod 2 = 0 -> 0 <= pc s -> pc s + 6 < 4294967296 ->
    mem_read SW s (pc s) = Some 0x0140 -> mem_read SW s (pc s + 2) = Some w1 -> mem_read SW s (pc s + 4) = Some d ->
    decode_ref 0x0140 w1 d w3 w4 = Some (IStcW (EDisp r disp), 6) ->
    sem_ref (IStcW (EDisp r disp)) 6 s = Some s' ->
    stc_charge 3 (ea_addr SW s (EDisp r disp)) (set_opc (pc s + 4) s') = Ok n (set_opc (pc s + 4) s') ->
    step s = Ok n (set_opc (pc s + 4) s').
Proof. exact step_stc_disp16_proof. Qed.

Theorem step_stc_word_absolute16 :
  forall s w1 d w3 w4 a n s',
  cpu_ok s -> bus_bytes_ok s -> fault s = false -> pc s mod 2 = 0 -> 0 <= pc s -> pc s + 6 < 4294967296 ->
    mem_read SW s (pc s) = Some 0x0140 -> mem_read SW s (pc s + 2) = Some w1 -> mem_read SW s (pc s + 4) = Some d ->
    decode_ref 0x0140 w1 d w3 w4 = Some (IStcW (EAbs a), 6) ->
    sem_ref (IStcW (EAbs a)) 6 s = Some s' ->
    stc_charge 3 a (set_opc (pc s + 4) s') = Ok n (set_opc (pc s + 4) s') ->
    step s = Ok n (set_opc (pc s + 4) s').
Proof. exact step_stc_abs16_proof. Qed.

Theorem step_stc_word_absolute24 :
  forall s w1 h l w4 a n s',
  cpu_ok s -> bus_bytes_ok s -> fault s = false -> pc s mod 2 = 0 -> 0 <= pc s -> pc s + 8 < 4294967296 ->
    mem_read SW s (pc s) = Some 0x0140 -> mem_read SW s (pc s + 2) = Some w1 ->
    mem_read SW s (pc s + 4) = Some h -> mem_read SW s (pc s + 6) = Some l ->
    decode_ref 0x0140 w1 h l w4 = Some (IStcW (EAbs a), 8) ->
    sem_ref (IStcW (EAbs a)) 8 s = Some s' ->
    stc_charge 4 a (set_opc (pc s + 6) s') = Ok n (set_opc (pc s + 6) s') ->
    step s = Ok n (set_opc (pc s + 6) s').
Proof. exact step_stc_abs24_proof. Qed.

Theorem step_stc_word_displacement24 :
  forall s w1 w2 h l r disp n s',
  cpu_ok s -> bus_bytes_ok s -> fault s = false -> pc s mod 2 = 0 -> 0 <= pc s -> pc s + 10 < 4294967296 ->
    mem_read SW s (pc s) = Some 0x0140 -> mem_read SW s (pc s + 2) = Some w1 -> mem_read SW s (pc s + 4) = Some w2 ->
    mem_read SW s (pc s + 6) = Some h -> mem_read SW s (pc s + 8) = Some l ->
    decode_ref 0x0140 w1 w2 h l = Some (IStcW (EDisp r disp), 10) ->
    sem_ref (IStcW (EDisp r disp)) 10 s = Some s' ->
    stc_charge 5 (ea_addr SW s (EDisp r disp)) (set_opc (pc s + 8) s') = Ok n (set_opc (pc s + 8) s') ->
    step s = Ok n (set_opc (pc s + 8) s').
Proof. exact step_stc_disp24_proof. Qed.

Print Assumptions ea_register_indirect.
Print Assumptions ea_displacement_16.
Print Assumptions ea_displacement_24.
Print Assumptions ea_absolute_8.
Print Assumptions ea_absolute_16.
Print Assumptions upper_byte_irrelevant.
Print Assumptions post_increment_register.
Print Assumptions pre_decrement_register.
Print Assumptions stc_register_indirect.
Print Assumptions stc_predec_is_postinc.
Print Assumptions step_stc_register_indirect.
Print Assumptions step_stc_word_displacement16.
Print Assumptions step_stc_word_absolute16.
Print Assumptions step_stc_word_absolute24.
Print Assumptions step_stc_word_displacement24.
