(* C05 — branches, jumps, calls and returns obey the condition table and stack discipline. *)
From Coq Require Import Bool ZArith List.
From K Require Import Lib.Types Model.Machine Model.Alu Model.Exec Spec.ISA Proofs.FlagProofs.
From K Require Import Model.Bus Model.Cost Model.Addressing Spec.MemMap Proofs.RegProofs Proofs.StackProofs Proofs.MemProofs Proofs.CtlProofs.
From K Require Import Proofs.StepProofs Proofs.StepRefines Proofs.StepRefinesCtl.
From K Require Import Proofs.StepRefines2.
From K Require Import Proofs.StepRefines4.
Open Scope Z_scope.

(* the 16 x 256 condition table *)
Theorem cond_table :
  forall cc c, 0 <= cc < 16 -> 0 <= c < 256 -> cond cc c = cond_ref cc c.
Proof. exact cond_table_proof. Qed.

Example c05_example : cond 14 0x00 = true /\ cond 14 0x04 = false /\ cond 13 0x08 = true.
Proof. repeat split; vm_compute; reflexivity. Qed.


(* on the reference: pushing a return address and jumping (BSR / JSR), then RTS, resumes at the return address
   with SP, CCR, all registers and all memory outside the 4-byte frame exactly as before *)
Theorem call_rts_inverse :
  forall s ret target,
    plain4 (frame_of s) -> word32 (reg32 s 7) -> 0 <= ret < A24 ->
    exists s1 s2,
      ISA.obind (push32 s ret) (fun s1 => Some (with_pc target s1)) = Some s1 /\ sem_ref IRts 2 s1 = Some s2 /\
      pc s1 = target /\ ccr s1 = ccr s /\ reg32 s1 7 = (reg32 s 7 - 4) mod 4294967296 /\
      mem_read SL s1 (frame_of s) = Some ret /\
      pc s2 = ret /\ ccr s2 = ccr s /\ er s2 = er s /\
      (forall x, x <> frame_of s -> x <> frame_of s + 1 -> x <> frame_of s + 2 -> x <> frame_of s + 3 ->
         bus_read (cbus s2) x = bus_read (cbus s) x).
Proof. exact call_rts_inverse_proof. Qed.

(* ---- the model's handlers are the reference's state transformers followed by their charge, for every state ----
   (s is the state after the first instruction word has been fetched: pc s is the address of the next word) *)
Theorem bcc8_refines :
  forall cc op s, 0 <= cc < 16 -> 0 <= ccr s < 256 ->
    (cond_ref cc (ccr s) = true -> 0 <= pc s + sx 8 (lo8 op) < 4294967296 /\ (pc s + sx 8 (lo8 op)) mod 2 = 0) ->
    run_tag (TBcc8 cc) op 0 0 s = cs KI 2 (with_pc (if cond_ref cc (ccr s) then pc s + sx 8 (lo8 op) else pc s) s).
Proof. exact bcc8_refines_proof. Qed.

Theorem bcc16_refines :
  forall cc op d s,
    0 <= cc < 16 -> 0 <= ccr s < 256 -> bus_bytes_ok s -> pc s mod 2 = 0 -> 0 <= pc s -> pc s + 2 < 4294967296 ->
    mem_read SW s (pc s) = Some d ->
    (cond_ref cc (ccr s) = true -> 0 <= pc s + 2 + sx 16 d < 4294967296 /\ (pc s + 2 + sx 16 d) mod 2 = 0) ->
    run_tag (TBcc16 cc) op 0 0 s =
    (i <- cs KI 2 ;; n <- cs KN 2 ;; ret (u8add i n))
      (with_pc (if cond_ref cc (ccr s) then pc s + 2 + sx 16 d else pc s + 2) (set_opc (pc s) s)).
Proof. exact bcc16_refines_proof. Qed.

Theorem jmp_ern_refines :
  forall op s, 0 <= nib op 3 < 8 -> run_tag TJmpErn op 0 0 s = cs KI 2 (with_pc (reg32 s (nib op 3) mod A24) s).
Proof. exact jmp_ern_refines_proof. Qed.

Theorem jmp_abs_refines :
  forall op d s,
    bus_bytes_ok s -> pc s mod 2 = 0 -> 0 <= pc s -> pc s + 2 < 4294967296 -> 0 <= lo8 op < 256 ->
    mem_read SW s (pc s) = Some d ->
    run_tag TJmpAbs op 0 0 s =
    (i <- cs KI 2 ;; n <- cs KN 2 ;; ret (u8add i n)) (with_pc (lo8 op * 65536 + d) (set_opc (pc s) s)).
Proof. exact jmp_abs_refines_proof. Qed.

Theorem jmp_ind_refines :
  forall op s, bus_bytes_ok s ->
    run_tag TJmpInd op 0 0 s =
    then_charge (option_map (fun v => with_pc (v mod A24) s) (mem_read SL s (lo8 op)))
                (i <- cs KI 2 ;; j <- csa KJ 2 (lo8 op) ;; n <- cs KN 2 ;; ret (u8add (u8add i j) n)).
Proof. exact jmp_ind_refines_proof. Qed.

Theorem bsr8_refines :
  forall op s, regs_ok s -> 0 <= pc s < 4294967296 ->
    run_tag TBsr8 op 0 0 s =
    then_charge (option_map (fun s1 => with_pc ((pc s + sx 8 (lo8 op)) mod 4294967296) s1) (push32 s (pc s)))
                (i <- cs KI 2 ;; k <- csa KK 2 ((reg32 s 7 - 4) mod A24) ;; ret (u8add i k)).
Proof. exact bsr8_refines_proof. Qed.

Theorem bsr16_refines :
  forall op d s,
    regs_ok s -> bus_bytes_ok s -> pc s mod 2 = 0 -> 0 <= pc s -> pc s + 2 < 4294967296 ->
    mem_read SW s (pc s) = Some d ->
    run_tag TBsr16 op 0 0 s =
    then_charge (option_map (fun s1 => with_pc ((pc s + 2 + sx 16 d) mod 4294967296) s1)
                            (push32 (set_pc (pc s + 2) (set_opc (pc s) s)) (pc s + 2)))
                (i <- cs KI 2 ;; k <- csa KK 2 ((reg32 s 7 - 4) mod A24) ;; n <- cs KN 2 ;; ret (u8add (u8add i k) n)).
Proof. exact bsr16_refines_proof. Qed.

Theorem jsr_ern_refines :
  forall op s, regs_ok s -> 0 <= pc s < 4294967296 -> 0 <= nib op 3 < 8 ->
    run_tag TJsrErn op 0 0 s =
    then_charge (option_map (fun s1 => with_pc (reg32 s1 (nib op 3) mod A24) s1) (push32 s (pc s)))
                (i <- cs KI 2 ;; k <- csa KK 2 ((reg32 s 7 - 4) mod A24) ;; ret (u8add i k)).
Proof. exact jsr_ern_refines_proof. Qed.

Theorem jsr_abs_refines :
  forall op d s,
    regs_ok s -> bus_bytes_ok s -> pc s mod 2 = 0 -> 0 <= pc s -> pc s + 2 < 4294967296 -> 0 <= lo8 op < 256 ->
    mem_read SW s (pc s) = Some d ->
    run_tag TJsrAbs op 0 0 s =
    then_charge (option_map (fun s1 => with_pc (lo8 op * 65536 + d) s1)
                            (push32 (set_pc (pc s + 2) (set_opc (pc s) s)) (pc s + 2)))
                (i <- cs KI 2 ;; k <- csa KK 2 ((reg32 s 7 - 4) mod A24) ;; n <- cs KN 2 ;; ret (u8add (u8add i k) n)).
Proof. exact jsr_abs_refines_proof. Qed.

Theorem jsr_ind_refines :
  forall op s, regs_ok s -> 0 <= pc s < 4294967296 ->
    (forall s1, push32 s (pc s) = Some s1 -> bus_bytes_ok s1) ->
    run_tag TJsrInd op 0 0 s =
    then_charge (ISA.obind (push32 s (pc s)) (fun s1 => option_map (fun v => with_pc (v mod A24) s1) (mem_read SL s1 (lo8 op))))
                (i <- cs KI 2 ;; j <- csa KJ 2 (lo8 op) ;; k <- csa KK 2 ((reg32 s 7 - 4) mod A24) ;; ret (u8add (u8add i j) k)).
Proof. exact jsr_ind_refines_proof. Qed.

Theorem rts_refines :
  forall op s, bus_bytes_ok s ->
    run_tag TRts op 0 0 s =
    then_charge (option_map (fun '(v, s1) => with_pc (v mod A24) s1) (pop32 s))
                (i <- cs KI 2 ;; k <- csa KK 2 (reg32 s 7 mod A24) ;; n <- cs KN 2 ;; ret (u8add (u8add i k) n)).
Proof. exact rts_refines_proof. Qed.

(* ---- from the instruction word in memory to the reference semantics, in one statement ----
   s is ANY machine state with an even PC whose instruction word w can be fetched, w1..w4 whatever follows it; if the
   operation-code map decodes w as the two-byte instruction i and the reference semantics sem_ref gives s', then one
   step of the model (fetch, dispatch, handler) ends in s' (plus the bookkeeping field operating_pc) with the charge
   computed by the handler's charge expression on that final state. *)
Theorem step_bcc8 :
  forall s w w1 w2 w3 w4 cc d n s',
    cpu_ok s -> bus_bytes_ok s -> fault s = false -> pc s mod 2 = 0 -> 0 <= pc s -> pc s + 2 < 4294967296 ->
    mem_read SW s (pc s) = Some w ->
    decode_ref w w1 w2 w3 w4 = Some (IBcc cc d, 2) ->
    (cond_ref cc (ccr s) = true -> 0 <= pc s + 2 + d < 4294967296 /\ (pc s + 2 + d) mod 2 = 0) ->
    sem_ref (IBcc cc d) 2 s = Some s' ->
    cs KI 2 (set_opc (pc s) s') = Ok n (set_opc (pc s) s') ->
    step s = Ok n (set_opc (pc s) s').
Proof. exact step_bcc8_proof. Qed.

Theorem step_jmp_ern :
  forall s w w1 w2 w3 w4 r n s',
    bus_bytes_ok s -> fault s = false -> pc s mod 2 = 0 -> 0 <= pc s -> pc s + 2 < 4294967296 ->
    mem_read SW s (pc s) = Some w ->
    decode_ref w w1 w2 w3 w4 = Some (IJmp (JReg r), 2) ->
    sem_ref (IJmp (JReg r)) 2 s = Some s' ->
    cs KI 2 (set_opc (pc s) s') = Ok n (set_opc (pc s) s') ->
    step s = Ok n (set_opc (pc s) s').
Proof. exact step_jmp_ern_proof. Qed.

Theorem step_jmp_ind :
  forall s w w1 w2 w3 w4 aa n s',
    bus_bytes_ok s -> fault s = false -> pc s mod 2 = 0 -> 0 <= pc s -> pc s + 2 < 4294967296 ->
    mem_read SW s (pc s) = Some w ->
    decode_ref w w1 w2 w3 w4 = Some (IJmp (JInd aa), 2) ->
    sem_ref (IJmp (JInd aa)) 2 s = Some s' ->
    (i <- cs KI 2 ;; j <- csa KJ 2 aa ;; n <- cs KN 2 ;; ret (u8add (u8add i j) n)) (set_opc (pc s) s') = Ok n (set_opc (pc s) s') ->
    step s = Ok n (set_opc (pc s) s').
Proof. exact step_jmp_ind_proof. Qed.

Theorem step_bsr8 :
  forall s w w1 w2 w3 w4 d n s',
    cpu_ok s -> bus_bytes_ok s -> fault s = false -> pc s mod 2 = 0 -> 0 <= pc s -> pc s + 2 < 4294967296 ->
    mem_read SW s (pc s) = Some w ->
    decode_ref w w1 w2 w3 w4 = Some (IBsr d, 2) ->
    0 <= pc s + 2 + d < 4294967296 ->
    sem_ref (IBsr d) 2 s = Some s' ->
    (i <- cs KI 2 ;; k <- csa KK 2 ((reg32 s 7 - 4) mod A24) ;; ret (u8add i k)) (set_opc (pc s) s') = Ok n (set_opc (pc s) s') ->
    step s = Ok n (set_opc (pc s) s').
Proof. exact step_bsr8_proof. Qed.

(* JSR @ERn, n <> 7: the reference takes the target before the push, the code after it *)
Theorem step_jsr_ern :
  forall s w w1 w2 w3 w4 r n s',
    cpu_ok s -> bus_bytes_ok s -> fault s = false -> pc s mod 2 = 0 -> 0 <= pc s -> pc s + 2 < 4294967296 ->
    mem_read SW s (pc s) = Some w ->
    decode_ref w w1 w2 w3 w4 = Some (IJsr (JReg r), 2) ->
    sem_ref (IJsr (JReg r)) 2 s = Some s' ->
    (i <- cs KI 2 ;; k <- csa KK 2 ((reg32 s 7 - 4) mod A24) ;; ret (u8add i k)) (set_opc (pc s) s') = Ok n (set_opc (pc s) s') ->
    step s = Ok n (set_opc (pc s) s').
Proof. exact step_jsr_ern_proof. Qed.

Theorem step_rts :
  forall s w w1 w2 w3 w4 n s',
    bus_bytes_ok s -> fault s = false -> pc s mod 2 = 0 -> 0 <= pc s -> pc s + 2 < 4294967296 ->
    mem_read SW s (pc s) = Some w ->
    decode_ref w w1 w2 w3 w4 = Some (IRts, 2) ->
    sem_ref IRts 2 s = Some s' ->
    (i <- cs KI 2 ;; k <- csa KK 2 (reg32 s 7 mod A24) ;; n <- cs KN 2 ;; ret (u8add (u8add i k) n)) (set_opc (pc s) s') = Ok n (set_opc (pc s) s') ->
    step s = Ok n (set_opc (pc s) s').
Proof. exact step_rts_proof. Qed.

(* JSR @@aa:8 (the pushed frame does not overwrite the vector) *)
Theorem step_jsr_ind :
  forall s w w1 w2 w3 w4 aa n s',
    cpu_ok s -> bus_bytes_ok s -> fault s = false -> pc s mod 2 = 0 -> 0 <= pc s -> pc s + 2 < 4294967296 ->
    mem_read SW s (pc s) = Some w ->
    decode_ref w w1 w2 w3 w4 = Some (IJsr (JInd aa), 2) ->
    (forall s1, push32 s (pc s + 2) = Some s1 -> bus_bytes_ok s1 /\ mem_read SL s1 aa = mem_read SL s aa) ->
    sem_ref (IJsr (JInd aa)) 2 s = Some s' ->
    (i <- cs KI 2 ;; j <- csa KJ 2 aa ;; k <- csa KK 2 ((reg32 s 7 - 4) mod A24) ;; ret (u8add (u8add i j) k)) (set_opc (pc s) s') = Ok n (set_opc (pc s) s') ->
    step s = Ok n (set_opc (pc s) s').
Proof. exact step_jsr_ind_proof. Qed.

(* Bcc d:16 - both instruction words in memory, any state; the operating PC ends at the second word *)
Theorem step_bcc16 :
  forall s w d w2 w3 w4 cc disp n s',
    cpu_ok s -> bus_bytes_ok s -> fault s = false -> pc s mod 2 = 0 -> 0 <= pc s -> pc s + 4 < 4294967296 ->
    mem_read SW s (pc s) = Some w -> mem_read SW s (pc s + 2) = Some d ->
    decode_ref w d w2 w3 w4 = Some (IBcc cc disp, 4) ->
    (cond_ref cc (ccr s) = true -> 0 <= pc s + 4 + disp < 4294967296 /\ (pc s + 4 + disp) mod 2 = 0) ->
    sem_ref (IBcc cc disp) 4 s = Some s' ->
    (i <- cs KI 2 ;; n <- cs KN 2 ;; ret (u8add i n)) (set_opc (pc s + 2) s') = Ok n (set_opc (pc s + 2) s') ->
    step s = Ok n (set_opc (pc s + 2) s').
Proof. exact step_bcc16_proof. Qed.

(* JMP @aa:24 *)
Theorem step_jmp_abs :
  forall s w d w2 w3 w4 a n s',
    bus_bytes_ok s -> fault s = false -> pc s mod 2 = 0 -> 0 <= pc s -> pc s + 4 < 4294967296 ->
    mem_read SW s (pc s) = Some w -> mem_read SW s (pc s + 2) = Some d ->
    decode_ref w d w2 w3 w4 = Some (IJmp (JAbs a), 4) ->
    sem_ref (IJmp (JAbs a)) 4 s = Some s' ->
    (i <- cs KI 2 ;; n <- cs KN 2 ;; ret (u8add i n)) (set_opc (pc s + 2) s') = Ok n (set_opc (pc s + 2) s') ->
    step s = Ok n (set_opc (pc s + 2) s').
Proof. exact step_jmp_abs_proof. Qed.

(* BSR d:16 *)
Theorem step_bsr16 :
  forall s w d w2 w3 w4 disp n s',
    cpu_ok s -> bus_bytes_ok s -> fault s = false -> pc s mod 2 = 0 -> 0 <= pc s -> pc s + 4 < 4294967296 ->
    mem_read SW s (pc s) = Some w -> mem_read SW s (pc s + 2) = Some d ->
    decode_ref w d w2 w3 w4 = Some (IBsr disp, 4) ->
    0 <= pc s + 4 + disp < 4294967296 ->
    sem_ref (IBsr disp) 4 s = Some s' ->
    (i <- cs KI 2 ;; k <- csa KK 2 ((reg32 s 7 - 4) mod A24) ;; n <- cs KN 2 ;; ret (u8add (u8add i k) n)) (set_opc (pc s + 2) s') = Ok n (set_opc (pc s + 2) s') ->
    step s = Ok n (set_opc (pc s + 2) s').
Proof. exact step_bsr16_proof. Qed.

(* JSR @aa:24 *)
Theorem step_jsr_abs :
  forall s w d w2 w3 w4 a n s',
    cpu_ok s -> bus_bytes_ok s -> fault s = false -> pc s mod 2 = 0 -> 0 <= pc s -> pc s + 4 < 4294967296 ->
    mem_read SW s (pc s) = Some w -> mem_read SW s (pc s + 2) = Some d ->
    decode_ref w d w2 w3 w4 = Some (IJsr (JAbs a), 4) ->
    sem_ref (IJsr (JAbs a)) 4 s = Some s' ->
    (i <- cs KI 2 ;; k <- csa KK 2 ((reg32 s 7 - 4) mod A24) ;; n <- cs KN 2 ;; ret (u8add (u8add i k) n)) (set_opc (pc s + 2) s') = Ok n (set_opc (pc s + 2) s') ->
    step s = Ok n (set_opc (pc s + 2) s').
Proof. exact step_jsr_abs_proof. Qed.

Print Assumptions cond_table.
Print Assumptions call_rts_inverse.
Print Assumptions bcc8_refines.
Print Assumptions bcc16_refines.
Print Assumptions jmp_ern_refines.
Print Assumptions jmp_abs_refines.
Print Assumptions jmp_ind_refines.
Print Assumptions bsr8_refines.
Print Assumptions bsr16_refines.
Print Assumptions jsr_ern_refines.
Print Assumptions jsr_abs_refines.
Print Assumptions jsr_ind_refines.
Print Assumptions rts_refines.
Print Assumptions step_bcc8.
Print Assumptions step_jmp_ern.
Print Assumptions step_jmp_ind.
Print Assumptions step_bsr8.
Print Assumptions step_jsr_ern.
Print Assumptions step_rts.
Print Assumptions step_jsr_ind.
Print Assumptions step_bcc16.
Print Assumptions step_jmp_abs.
Print Assumptions step_bsr16.
Print Assumptions step_jsr_abs.
