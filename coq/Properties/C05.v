(* C05 — branches, jumps, calls and returns obey the condition table and stack discipline. *)
From Coq Require Import Bool ZArith List.
From K Require Import Lib.Types Model.Machine Model.Alu Model.Exec Spec.ISA Proofs.FlagProofs.
From K Require Import Model.Bus Spec.MemMap Proofs.RegProofs Proofs.StackProofs.
Open Scope Z_scope.

(* the 16 x 256 condition table *)
Theorem cond_table :
  forall cc c, 0 <= cc < 16 -> 0 <= c < 256 -> cond cc c = cond_ref cc c.
Proof. exact cond_table_proof. Qed.

Example c05_example : cond 14 0x00 = true /\ cond 14 0x04 = false /\ cond 13 0x08 = true.
Proof. repeat split; vm_compute; reflexivity. Qed.


(* on the reference: pushing a return address and jumping (BSR / JSR), then RTS, resumes at the return address
   with SP, CCR, all registers and all memory outside the 4-byte frame exactly as before *)
Theorem call_rts_inverse :
  forall s ret target,
    plain4 (frame_of s) -> word32 (reg32 s 7) -> 0 <= ret < A24 ->
    exists s1 s2,
      ISA.obind (push32 s ret) (fun s1 => Some (with_pc target s1)) = Some s1 /\ sem_ref IRts 2 s1 = Some s2 /\
      pc s1 = target /\ ccr s1 = ccr s /\ reg32 s1 7 = (reg32 s 7 - 4) mod 4294967296 /\
      mem_read SL s1 (frame_of s) = Some ret /\
      pc s2 = ret /\ ccr s2 = ccr s /\ er s2 = er s /\
      (forall x, x <> frame_of s -> x <> frame_of s + 1 -> x <> frame_of s + 2 -> x <> frame_of s + 3 ->
         bus_read (cbus s2) x = bus_read (cbus s) x).
Proof. exact call_rts_inverse_proof. Qed.

Print Assumptions cond_table.
Print Assumptions call_rts_inverse.
