(* C20 — each instruction is charged the manual's bus-cycle mix at the areas it touches. *)
From Coq Require Import Bool ZArith List.
From K Require Import Lib.Types Model.Machine Model.Bus Model.Cost Model.Addressing Model.Exec Spec.Price Spec.ISA
  Proofs.PriceProofs Proofs.FlagProofs Proofs.AluProofs Proofs.RegProofs Proofs.StepProofs.
From K Require Import Spec.Domains Proofs.StepRefines Proofs.ChargeProofs.
Open Scope Z_scope.

(* every term of a handler's charge is count x the C19 price at the stated address: instruction fetches at the
   instruction's own address (operating PC), data / stack / vector cycles at the address passed *)
Theorem fetch_cycles_price :
  forall s n, bytes_ok (cbus s) -> dom_c19 (reg (cbus s) DRCRA) 0 n (opc s) = true ->
    cs KI n s = Ok (n * price_ref (on_chip_ram (opc s))
      (settings_of_area (reg (cbus s) ABWCR) (reg (cbus s) ASTCR) (reg (cbus s) WCRH) (reg (cbus s) WCRL) (reg (cbus s) DRCRA)
                        (area_of (opc s))) 0) s.
Proof.
  intros s n Hb Hd. unfold cs, lift, calc_state. cbn [KI KL KM Z.eqb orb].
  now rewrite price_table_proof.
Qed.
Theorem addressed_cycles_price :
  forall s kind n addr, bytes_ok (cbus s) -> dom_c19 (reg (cbus s) DRCRA) kind n addr = true ->
    csa kind n addr s = Ok (n * price_ref (on_chip_ram addr)
      (settings_of_area (reg (cbus s) ABWCR) (reg (cbus s) ASTCR) (reg (cbus s) WCRH) (reg (cbus s) WCRL) (reg (cbus s) DRCRA)
                        (area_of addr)) kind) s.
Proof.
  intros s kind n addr Hb Hd. unfold csa, lift. now rewrite price_table_proof.
Qed.

(* register-operand ALU forms are charged exactly one fetch cycle, whatever the operand values *)
Theorem alu_rr_charge_value_independent :
  forall o z op s s' n,
    cpu_ok s -> cpu_ok s' -> cbus s = cbus s' -> opc s = opc s' ->
    let rs := match z with SL => Z.land (nib op 3) 7 | _ => nib op 3 end in
    field_ok z rs -> field_ok z (nib op 4) -> (o = AAddx -> z = SB) ->
    cs KI 1 s = Ok n s ->
    exists t t', run_tag (TAlu2Rn o z) op 0 0 s = Ok n t /\ run_tag (TAlu2Rn o z) op 0 0 s' = Ok n t'.
Proof.
  intros o z op s s' n Hs Hs' Hb Ho rs Hrs Hrd Hx Hcs.
  assert (Hcs' : cs KI 1 s' = Ok n s').
  { unfold cs, lift in *. rewrite <- Hb, <- Ho. destruct (calc_state (cbus s) (opc s) KI 1); inversion Hcs; reflexivity. }
  eexists. eexists. split.
  - apply alu2_rn_refines; assumption.
  - apply alu2_rn_refines; assumption.
Qed.

(* for every form that the cycle table lists with one instruction fetch and nothing else (register ALU / MOV / bit forms,
   byte immediates, ADDS/SUBS, STC.B), the charge the end-to-end step theorems of C01-C04 carry IS the reference's total:
   cycles_ref priced by the C19 price list at the instruction's address *)
Theorem register_form_total_charge :
  forall i s, one_fetch_form i = true -> bytes_ok (cbus s) -> dom_c19 (reg (cbus s) DRCRA) 0 1 (pc s) = true ->
    cs KI 1 (post_fetch s) = Ok (charge_ref i 2 s) (post_fetch s).
Proof. exact register_form_total_charge_proof. Qed.

(* the charge expression of every two-byte branch / jump / call / return / trap handler (ctl_suffix: the expression the
   end-to-end step theorems of C05 / C06 carry), evaluated on the final state, IS the reference total - the byte-sized
   partial sums never wrap (every price is between 1 and 14 states) *)
Theorem control_form_total_charge :
  forall i s s' m,
    ctl_suffix i s = Some m -> ctl_dom i s ->
    b_io1 (cbus s') = b_io1 (cbus s) -> opc s' = pc s -> bytes_ok (cbus s) ->
    m s' = Ok (charge_ref i 2 s) s'.
Proof. exact control_form_total_charge_proof. Qed.

Theorem price_between_1_and_14 : forall s k a, 0 <= k <= 5 -> 1 <= price_at s k a <= 14.
Proof. exact price_at_range. Qed.

Print Assumptions fetch_cycles_price.
Print Assumptions addressed_cycles_price.
Print Assumptions alu_rr_charge_value_independent.
Print Assumptions register_form_total_charge.
Print Assumptions control_form_total_charge.
Print Assumptions price_between_1_and_14.
