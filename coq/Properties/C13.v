(* C13 — the run loop runs to the exit address on one consistent, deterministic time base. *)
From Coq Require Import Bool ZArith List.
From K Require Import Lib.Types Model.Machine Model.Bus Model.Exec Model.Periph Model.Run Proofs.FrameProofs Proofs.RunProofs.
Import ListNotations.
From K Require Import Spec.ISA Spec.Domains Proofs.RefStep Proofs.Preserve Proofs.RunPlain Proofs.RunIrq Proofs.RunTimer Proofs.ExampleState.
Open Scope Z_scope.

(* One instruction of the loop (acct: 0 <= sync < 2,000,000, state_sum = 2,000,000 x #sync messages + sync, the bus
   sees state_sum): afterwards the invariant holds again, the cumulative count advanced by exactly the charge 3 x st
   (st = the states returned by the instruction, 0 <= st < 256) - the same amount the timer was fed - and one sync
   message was sent iff the total passed another multiple of 2,000,000. *)
Theorem accounting_and_sync :
  forall s sync p r', acct s sync -> iter_insn s sync p = Continue r' ->
    let s' := c_cpu (r_ctl r') in
    acct s' (r_sync r') /\
    exists st, 0 <= st < 256 /\ ssum s' = ssum s + 3 * st /\
      (sync_count (b_msgs (cbus s')) = sync_count (b_msgs (cbus s)) + (if SYNC_INTERVAL <=? sync + 3 * st then 1 else 0)).
Proof. exact iter_insn_accounting_proof. Qed.

(* consequence of acct: the number of sync messages is floor(total / 2,000,000), one per multiple *)
Theorem sync_once_per_multiple :
  forall s sync, acct s sync -> sync_count (b_msgs (cbus s)) = ssum s / SYNC_INTERVAL /\ sync = ssum s mod SYNC_INTERVAL.
Proof. exact sync_once_per_multiple_proof. Qed.

(* the loop returns success exactly when PC equals the exit address after an instruction ... *)
Theorem run_stops_at_exit : forall s sync p s', iter_insn s sync p = Finished s' -> pc s' = exit_addr s'.
Proof. exact iter_insn_finished_proof. Qed.
(* ... and returns the error of the first failing interrupt entry / instruction, executing nothing afterwards *)
Theorem run_propagates_error :
  forall s sync p s', iter_insn s sync p = Failed s' ->
    try_interrupt s = Err \/ exists s1, try_interrupt s = Ok tt s1 /\ step s1 = Err.
Proof. exact iter_insn_failed_proof. Qed.

(* every instruction's charge fits the accounting (st < 256), so at most one multiple is passed per instruction *)
Theorem charge_bounded : forall s st s', step s = Ok st s' -> 0 <= st < 256.
Proof. exact step_charge_range. Qed.

(* instructions themselves never touch the cumulative count, the exit address or the sync messages *)
Theorem instructions_leave_time_base : forall s n s', step s = Ok n s' -> untouched s' = untouched s.
Proof. exact step_untouched. Qed.

Example c13_example : sync_count [MsgSync 2000058; MsgIoPort 1 2 3; MsgSync 4000002] = 2.
Proof. reflexivity. Qed.

(* ---- the loop on plain programs is the iterated reference ----
   [quiet s]: no interrupt request pending and the timer stopped; no control line arrives (empty script).
   [plain_iter]: the instruction the operation-code map decodes at PC, inside the domain, executed by the reference semantics
   and charged the reference's priced cycle table; then the accounting of run(): the time base advances by three times the
   charge (on the CPU and on the bus), a sync message goes out when another multiple of 2,000,000 is passed.
   [plain_run]: iterate until PC = exit address. *)
Theorem run_iteration_is_one_reference_instruction :
  forall s sync s4 sync2,
    state_ok s -> quiet s -> plain_iter s sync = Some (s4, sync2) ->
    iter_insn s sync false = (if pc s4 =? exit_addr s4 then Finished s4 else Continue (mkR (mkCtl s4 false false) sync2))
    /\ state_ok s4 /\ quiet s4.
Proof. exact iter_insn_plain. Qed.

Theorem run_loop_is_the_iterated_reference :
  forall fuel s sync sf,
    state_ok s -> quiet s -> plain_run fuel s sync = Some sf ->
    run_iters fuel nil (mkR (mkCtl s false false) sync) = Some (Finished sf) /\ state_ok sf.
Proof. exact run_iters_plain. Qed.

Example c13_plain_run_example :
  state_ok (ex_state 0xffc002) /\ quiet (ex_state 0xffc002) /\ exists sf, plain_run 1 (ex_state 0xffc002) 0 = Some sf.
Proof. split; [apply ex_state_ok|split; [split; reflexivity|eexists; vm_compute; reflexivity]]. Qed.

(* ---- the loop with interrupt requests pending AND the 8-bit timer running ----
   [tmr_iter]: the reference's boundary acceptance on the pending queue (oldest request first, only while I is clear), the
   instruction the operation-code map decodes at PC executed by the reference semantics and charged the reference's priced
   cycle table, the accounting of run(), and then the timer fed with exactly three times that charge: its counts, flags and
   the requests it raises (appended to the pending queue, hence accepted at later boundaries) are update_timer's, which
   C17's elapse_refines equates with the tick-by-tick reference timer.  No hypothesis on the timer or on the queue remains:
   the loop invariant state_ok is preserved by the timer's register updates (update_timer_keeps_state_ok). *)
Theorem update_timer_keeps_state_ok : forall n s, state_ok s -> state_ok (update_timer n s).
Proof. exact update_timer_state_ok. Qed.

Theorem run_iteration_with_timer :
  forall s sync s5 sync2,
    state_ok s -> tmr_iter s sync = Some (s5, sync2) ->
    iter_insn s sync false = (if pc s5 =? exit_addr s5 then Finished s5 else Continue (mkR (mkCtl s5 false false) sync2))
    /\ state_ok s5.
Proof. exact iter_insn_tmr. Qed.

Theorem run_loop_with_timer_is_the_iterated_reference :
  forall fuel s sync sf,
    state_ok s -> tmr_run fuel s sync = Some sf ->
    run_iters fuel nil (mkR (mkCtl s false false) sync) = Some (Finished sf) /\ state_ok sf.
Proof. exact run_iters_tmr. Qed.

(* non-vacuity: prescaler 8 with phase 6; the instruction is charged 2 states = 6 after run()'s x3, so 12 / 8: one count, phase 4 *)
Example c13_timer_run_example :
  state_ok (ex_state_tmr 0xffc002) /\ t_presc (b_tmr (cbus (ex_state_tmr 0xffc002))) = 8 /\
  exists sf, tmr_run 1 (ex_state_tmr 0xffc002) 0 = Some sf /\ io2_get (cbus sf) TCNT0 = 1 /\ t_state (b_tmr (cbus sf)) = 4.
Proof. split; [apply ex_state_tmr_ok|split; [reflexivity|eexists; split; [vm_compute; reflexivity|split; vm_compute; reflexivity]]]. Qed.

Print Assumptions accounting_and_sync.
Print Assumptions sync_once_per_multiple.
Print Assumptions run_stops_at_exit.
Print Assumptions run_propagates_error.
Print Assumptions charge_bounded.
Print Assumptions instructions_leave_time_base.
Print Assumptions run_iteration_is_one_reference_instruction.
Print Assumptions run_loop_is_the_iterated_reference.
Print Assumptions update_timer_keeps_state_ok.
Print Assumptions run_iteration_with_timer.
Print Assumptions run_loop_with_timer_is_the_iterated_reference.
