(* C14 — the MES system-call trap delivers console output and handler setup faithfully. *)
From Coq Require Import Bool ZArith List.
From K Require Import Lib.Types Model.Machine Model.Bus Model.Addressing Model.Exec Spec.ISA Spec.Domains
  Proofs.RegProofs Proofs.MemProofs Proofs.MesProofs.
Import ListNotations.
Open Scope Z_scope.

(* The emulation of TRAPA #0 is the reference call: for ER0 = 104 exactly the `length` bytes at `buffer` are appended
   once, in order, to the console and sent as one stdout message, nothing else changes; for ER0 = 113 a vector in 1-63
   gets the word H'5A000000 + address (and its GOT save slot), other vectors are ignored; any other number is an error. *)
Theorem mes_refines :
  forall s, mes_pre s -> mes s = match mes_body s with Some s' => Ok tt s' | None => Err end.
Proof. exact mes_refines_proof. Qed.

(* the bytes emitted by the write call are the bytes of the buffer, in order *)
Theorem write_reads_the_buffer :
  forall n a s, 0 <= a -> a + Z.of_nat n <= 4294967296 ->
    read_bytes n a s = match bytes_at s a n with Some bs => Ok bs s | None => Err end.
Proof. exact read_bytes_spec. Qed.

(* the installed vector word sends a later interrupt of that vector to the handler address (C06 / C10 take the low 24 bits) *)
Theorem installed_vector_targets_handler :
  forall addr, ((0x5a000000 + addr) mod 4294967296) mod 16777216 = addr mod 16777216.
Proof. exact handler_word_low24. Qed.

(* any other call number stops execution with an error *)
Theorem other_call_numbers_fail :
  forall s, reg32 s 0 <> 104 -> reg32 s 0 <> 113 -> mes_body s = None.
Proof.
  intros s H1 H2. unfold mes_body.
  destruct (Z.eqb_spec (reg32 s 0) 104); [contradiction|]. destruct (Z.eqb_spec (reg32 s 0) 113); [contradiction|]. reflexivity.
Qed.

Example c14_example : ((0x5a000000 + 0xffc100) mod 4294967296) mod 16777216 = 0xffc100.
Proof. reflexivity. Qed.

Print Assumptions mes_refines.
Print Assumptions write_reads_the_buffer.
Print Assumptions installed_vector_targets_handler.
Print Assumptions other_call_numbers_fail.
