(* C19 — bus-cycle costs follow the bus-controller settings for every area configuration.
   Only statements, pins, non-vacuity examples and assumption printing live here. *)
From Coq Require Import Bool ZArith List.
From K Require Import Model.Machine Model.Bus Model.Cost Spec.Price Proofs.PriceProofs.
Open Scope Z_scope.

(* For every bus state whose I/O register bytes are bytes, every kind, count 1-5 and every
   address of the property's domain, the model's calc_state_with_addr charges
   count x the reference price of the containing area's own settings. *)
Theorem price_table :
  forall b kind n addr,
    bytes_ok b ->
    dom_c19 (reg b DRCRA) kind n addr = true ->
    calc_state_with_addr b kind n addr =
    Some (n * price_ref (on_chip_ram addr)
                 (settings_of_area (reg b ABWCR) (reg b ASTCR) (reg b WCRH) (reg b WCRL) (reg b DRCRA)
                                   (area_of addr)) kind).
Proof. exact price_table_proof. Qed.

Theorem linear_in_n :
  forall b kind n addr,
    bytes_ok b -> dom_c19 (reg b DRCRA) kind n addr = true ->
    exists p, calc_state_with_addr b kind 1 addr = Some p /\
              calc_state_with_addr b kind n addr = Some (n * p).
Proof. exact linear_in_n_proof. Qed.

Theorem other_areas_irrelevant :
  forall b b' kind n addr,
    bytes_ok b -> bytes_ok b' ->
    dom_c19 (reg b DRCRA) kind n addr = true ->
    reg b DRCRA / 32 = reg b' DRCRA / 32 ->
    settings_of_area (reg b ABWCR) (reg b ASTCR) (reg b WCRH) (reg b WCRL) (reg b DRCRA) (area_of addr) =
    settings_of_area (reg b' ABWCR) (reg b' ASTCR) (reg b' WCRH) (reg b' WCRL) (reg b' DRCRA) (area_of addr) ->
    calc_state_with_addr b kind n addr = calc_state_with_addr b' kind n addr.
Proof. exact other_areas_irrelevant_proof. Qed.

(* non-vacuity: a concrete bus in the domain, priced 3 x (2 accesses x (3+3)) = 36 *)
Definition ex_bus : bus :=
  let z := snew (fun _ => 0) in
  let io := sset (sset (sset z 0x20 0xff) 0x21 0xff) 0x23 0xff in
  mkBus z z io z z z z 0 nil timer0.
Example price_example :
  dom_c19 (reg ex_bus DRCRA) 4 3 0x200000 = true /\
  calc_state_with_addr ex_bus 4 3 0x200000 = Some 36.
Proof. split; vm_compute; reflexivity. Qed.

Print Assumptions price_table.
Print Assumptions linear_in_n.
Print Assumptions other_areas_irrelevant.
