(* C17 — the 8-bit timer counts elapsed states exactly; flags and interrupts fire once. *)
From Coq Require Import Bool ZArith List.
From K Require Import Model.Machine Model.Bus Model.Periph Spec.TimerSpec Proofs.TimerProofs.
Import ListNotations.
Open Scope Z_scope.

(* Feeding n elapsed states to update_timer8_0 in one call is exactly n single-state steps of the tick-by-tick
   reference (counter, status register, compare registers, prescaler phase and the requests raised, in order):
   no tick is lost, gained or bunched, whatever the charge. *)
Theorem elapse_refines :
  forall n s, timer_wf s -> side_ok (tmr_of (cbus s)) = true ->
    tmr_of (cbus (update_timer (Z.of_nat n) s)) = fst (states_ref n (tmr_of (cbus s))) /\
    irq (update_timer (Z.of_nat n) s) = irq s ++ snd (states_ref n (tmr_of (cbus s))).
Proof. exact elapse_refines_proof. Qed.

(* every partition of the same elapsed time into instruction charges gives the same state *)
Theorem partition_independent :
  forall l s, Forall (fun x => 0 <= x) l -> timer_wf s ->
    fold_left (fun st n => update_timer n st) l s = update_timer (fold_right Z.add 0 l) s.
Proof. exact partition_independent_proof. Qed.

Theorem no_clock_no_count : forall n s, t_presc (b_tmr (cbus s)) = 0 -> update_timer n s = s.
Proof. exact no_clock_no_count_proof. Qed.

(* one count of the model is one count of the reference (flags set exactly on match / wrap, counter cleared by
   the selected compare match, one request per event iff enabled) under the property's side condition *)
Theorem count_refines :
  forall b, side_ok (tmr_of b) = true ->
    let '(b', rq) := timer_tick (b_tmr b) b in
    tmr_of b' = fst (tick_ref (tmr_of b)) /\ rq = snd (tick_ref (tmr_of b)).
Proof. exact tick_refines. Qed.

(* CMFA / CMFB / OVF stay set until the CPU clears them *)
Theorem flags_stay_set :
  forall t i, 0 <= i -> Z.testbit (tcsr t) i = true -> Z.testbit (tcsr (fst (tick_ref t))) i = true.
Proof. exact tick_ref_flags_monotone. Qed.

(* a TCR write keeps the prescaler phase inside one period (0 <= p < divisor): a newly selected clock starts fresh *)
Theorem clock_select_phase :
  forall t v, 0 <= t_state t -> (t_presc t = 0 \/ t_state t < t_presc t) ->
    let t' := update_tcr t v in 0 <= t_state t' /\ (t_presc t' = 0 \/ (0 < t_presc t' /\ t_state t' < t_presc t')).
Proof. exact update_tcr_wf. Qed.

Example c17_example :
  fst (states_ref 8 (mkTmr 0xfe 0 0xff 0x10 false true true 1 8 0)) = mkTmr 0 0x40 0xff 0x10 false true true 1 8 0 /\
  snd (states_ref 8 (mkTmr 0xfe 0 0xff 0x10 false true true 1 8 0)) = [36].
Proof. split; vm_compute; reflexivity. Qed.

Print Assumptions elapse_refines.
Print Assumptions partition_independent.
Print Assumptions no_clock_no_count.
Print Assumptions count_refines.
Print Assumptions flags_stay_set.
Print Assumptions clock_select_phase.
