(* C10 — interrupts are delivered exactly once, only when unmasked, between instructions. *)
From Coq Require Import Bool ZArith List.
From K Require Import Lib.Types Model.Machine Model.Bus Model.Addressing Model.Alu Model.Exec Model.Periph Spec.MemMap Spec.ISA
  Proofs.RegProofs Proofs.MemProofs Proofs.FrameProofs Proofs.StackProofs Proofs.IrqProofs.
From K Require Import Model.Run Spec.Domains Proofs.RefStep Proofs.RunPlain Proofs.RunIrq Proofs.ExampleState.
Import ListNotations.
Open Scope Z_scope.

(* No instruction of the whole implemented set touches the pending-request queue: requests are neither lost nor
   invented by instruction execution, and acceptance can only happen at a boundary (one instruction = one step). *)
Theorem instructions_keep_requests : forall s n s', step s = Ok n s' -> irq s' = irq s.
Proof. exact step_keeps_requests. Qed.

(* A request is accepted only while CCR.I is clear, and then it is the oldest pending one, removed exactly once. *)
Theorem accept_only_unmasked :
  forall s v s', boundary s = Ok (Some v) s' -> ccr_get FI (ccr s) = 0 /\ exists r, irq s = v :: r /\ irq s' = r.
Proof. exact accept_only_unmasked_proof. Qed.
Theorem pending_while_masked : forall s, ccr_get FI (ccr s) = 1 -> boundary s = Ok None s.
Proof. exact pending_while_masked_proof. Qed.

(* For every interleaving of requests, boundaries and instructions that runs without error:
   entered ++ pending = initially pending ++ requested (as sequences): exactly once, in order, none redirected. *)
Theorem fifo_exactly_once :
  forall evs s entered s' entered',
    irun evs s entered = Some (s', entered') -> entered' ++ irq s' = entered ++ irq s ++ requests_of evs.
Proof. exact fifo_exactly_once_proof. Qed.

(* Acceptance of vector v is the reference's exception entry through address 4 x v (frame, I := 1, PC from the vector). *)
Theorem interrupt_refines :
  forall s v, regs_ok s -> 0 <= ccr s < 256 -> 0 <= pc s < 16777216 -> 0 <= v < 64 ->
    (forall s1, push32 s (ccr s * A24 + pc s) = Some s1 -> bus_bytes_ok s1) ->
    interrupt v s = match enter_ref s v (pc s) with Some s' => Ok tt s' | None => Err end.
Proof. exact interrupt_refines_proof. Qed.

(* Transparency: the entry followed by the handler's RTE gives the interrupted program back its PC, CCR, SP, every
   register and all memory outside the frame (the handler's own effects aside). *)
Theorem entry_return_transparent :
  forall s v ret d,
    plain4 (frame_of s) -> word32 (reg32 s 7) -> 0 <= ccr s < 256 -> 0 <= ret < A24 ->
    (forall s1, (forall x, x <> frame_of s -> x <> frame_of s + 1 -> x <> frame_of s + 2 -> x <> frame_of s + 3 ->
                    bus_read (cbus s1) x = bus_read (cbus s) x) -> mem_read SL s1 (4 * v) = Some d) ->
    exists s1 s2,
      enter_ref s v ret = Some s1 /\ sem_ref IRte 2 s1 = Some s2 /\
      pc s1 = d mod A24 /\ flag (ccr s1) fI = true /\
      reg32 s1 7 = (reg32 s 7 - 4) mod 4294967296 /\
      pc s2 = ret /\ ccr s2 = ccr s /\ er s2 = er s /\
      (forall x, x <> frame_of s -> x <> frame_of s + 1 -> x <> frame_of s + 2 -> x <> frame_of s + 3 ->
         bus_read (cbus s2) x = bus_read (cbus s) x).
Proof. exact entry_rte_inverse_proof. Qed.

Example c10_example : requests_of [EReq 36; EBnd; EStep; EReq 39] = [36; 39].
Proof. reflexivity. Qed.

(* ---- the boundary test of run() IS the reference's acceptance rule, and the loop with requests pending is the iterated
   reference ----
   [accept_boundary s]: the reference rule (Spec/Domains.boundary_ref: nothing while I is set; otherwise the oldest pending request, if
   its entry is inside the domain, is accepted through the reference's exception entry) applied to the model's own queue.
   For every well-formed state the model's try_interrupt does exactly that, leaves a well-formed state and does not touch the
   timer. *)
Theorem boundary_is_the_reference_acceptance :
  forall s s1, state_ok s -> accept_boundary s = Some s1 ->
    try_interrupt s = Ok tt s1 /\ state_ok s1 /\ b_tmr (cbus s1) = b_tmr (cbus s).
Proof. exact try_interrupt_is_boundary. Qed.

(* one iteration (timer stopped, no control line): boundary, then the reference instruction with the reference's charge and the
   accounting; and any number of iterations: requests pending at the start are delivered one by one, oldest first, each at the
   first boundary at which I is clear, and execution in between is the reference's *)
Theorem run_iteration_with_requests :
  forall s sync s4 sync2,
    state_ok s -> timer_stopped s -> irq_iter s sync = Some (s4, sync2) ->
    iter_insn s sync false = (if pc s4 =? exit_addr s4 then Finished s4 else Continue (mkR (mkCtl s4 false false) sync2))
    /\ state_ok s4 /\ timer_stopped s4.
Proof. exact iter_insn_irq. Qed.

Theorem run_loop_with_requests_is_the_iterated_reference :
  forall fuel s sync sf,
    state_ok s -> timer_stopped s -> irq_run fuel s sync = Some sf ->
    run_iters fuel nil (mkR (mkCtl s false false) sync) = Some (Finished sf) /\ state_ok sf.
Proof. exact run_iters_irq. Qed.

(* non-vacuity: request 36 pending with I clear; its handler (vector H'FFC000) is entered at the first boundary, its first
   instruction executed, and the run ends at the exit address H'FFC002 *)
Example c10_run_example :
  state_ok (ex_state_irq 0xffc002) /\ timer_stopped (ex_state_irq 0xffc002) /\
  exists sf, irq_run 1 (ex_state_irq 0xffc002) 0 = Some sf /\ irq sf = nil /\ reg32 sf 7 = 0xfffefc.
Proof. split; [apply ex_state_irq_ok|split; [reflexivity|eexists; split; [vm_compute; reflexivity|split; reflexivity]]]. Qed.

Print Assumptions instructions_keep_requests.
Print Assumptions accept_only_unmasked.
Print Assumptions pending_while_masked.
Print Assumptions fifo_exactly_once.
Print Assumptions interrupt_refines.
Print Assumptions entry_return_transparent.
Print Assumptions boundary_is_the_reference_acceptance.
Print Assumptions run_iteration_with_requests.
Print Assumptions run_loop_with_requests_is_the_iterated_reference.
