(* C10 — interrupts are delivered exactly once, only when unmasked, between instructions. *)
From Coq Require Import Bool ZArith List.
From K Require Import Lib.Types Model.Machine Model.Bus Model.Addressing Model.Alu Model.Exec Model.Periph Spec.MemMap Spec.ISA
  Proofs.RegProofs Proofs.MemProofs Proofs.FrameProofs Proofs.StackProofs Proofs.IrqProofs.
Import ListNotations.
Open Scope Z_scope.

(* No instruction of the whole implemented set touches the pending-request queue: requests are neither lost nor
   invented by instruction execution, and acceptance can only happen at a boundary (one instruction = one step). *)
Theorem instructions_keep_requests : forall s n s', step s = Ok n s' -> irq s' = irq s.
Proof. exact step_keeps_requests. Qed.

(* A request is accepted only while CCR.I is clear, and then it is the oldest pending one, removed exactly once. *)
Theorem accept_only_unmasked :
  forall s v s', boundary s = Ok (Some v) s' -> ccr_get FI (ccr s) = 0 /\ exists r, irq s = v :: r /\ irq s' = r.
Proof. exact accept_only_unmasked_proof. Qed.
Theorem pending_while_masked : forall s, ccr_get FI (ccr s) = 1 -> boundary s = Ok None s.
Proof. exact pending_while_masked_proof. Qed.

(* For every interleaving of requests, boundaries and instructions that runs without error:
   entered ++ pending = initially pending ++ requested (as sequences): exactly once, in order, none redirected. *)
Theorem fifo_exactly_once :
  forall evs s entered s' entered',
    irun evs s entered = Some (s', entered') -> entered' ++ irq s' = entered ++ irq s ++ requests_of evs.
Proof. exact fifo_exactly_once_proof. Qed.

(* Acceptance of vector v is the reference's exception entry through address 4 x v (frame, I := 1, PC from the vector). *)
Theorem interrupt_refines :
  forall s v, regs_ok s -> 0 <= ccr s < 256 -> 0 <= pc s < 16777216 -> 0 <= v < 64 ->
    (forall s1, push32 s (ccr s * A24 + pc s) = Some s1 -> bus_bytes_ok s1) ->
    interrupt v s = match enter_ref s v (pc s) with Some s' => Ok tt s' | None => Err end.
Proof. exact interrupt_refines_proof. Qed.

(* Transparency: the entry followed by the handler's RTE gives the interrupted program back its PC, CCR, SP, every
   register and all memory outside the frame (the handler's own effects aside). *)
Theorem entry_return_transparent :
  forall s v ret d,
    plain4 (frame_of s) -> word32 (reg32 s 7) -> 0 <= ccr s < 256 -> 0 <= ret < A24 ->
    (forall s1, (forall x, x <> frame_of s -> x <> frame_of s + 1 -> x <> frame_of s + 2 -> x <> frame_of s + 3 ->
                    bus_read (cbus s1) x = bus_read (cbus s) x) -> mem_read SL s1 (4 * v) = Some d) ->
    exists s1 s2,
      enter_ref s v ret = Some s1 /\ sem_ref IRte 2 s1 = Some s2 /\
      pc s1 = d mod A24 /\ flag (ccr s1) fI = true /\
      reg32 s1 7 = (reg32 s 7 - 4) mod 4294967296 /\
      pc s2 = ret /\ ccr s2 = ccr s /\ er s2 = er s /\
      (forall x, x <> frame_of s -> x <> frame_of s + 1 -> x <> frame_of s + 2 -> x <> frame_of s + 3 ->
         bus_read (cbus s2) x = bus_read (cbus s) x).
Proof. exact entry_rte_inverse_proof. Qed.

Example c10_example : requests_of [EReq 36; EBnd; EStep; EReq 39] = [36; 39].
Proof. reflexivity. Qed.

Print Assumptions instructions_keep_requests.
Print Assumptions accept_only_unmasked.
Print Assumptions pending_while_masked.
Print Assumptions fifo_exactly_once.
Print Assumptions interrupt_refines.
Print Assumptions entry_return_transparent.
