(* C15 — guest-triggered faults surface as errors, never as a crash of the emulator. *)
From Coq Require Import Bool ZArith List.
From K Require Import Lib.Types Model.Machine Model.Bus Model.Exec Model.Periph Model.Run Proofs.NoPanicProofs.
Import ListNotations.
Open Scope Z_scope.

(* over ALL states (arbitrary registers, CCR, memory, bus-controller bytes, PC anywhere): one instruction
   (fetch + exec of any opcode word sequence), an interrupt acceptance, and a whole run-loop iteration with any
   batch of control lines never take the model's panic outcome; faults are Err *)
Theorem no_panic_step : forall s, step s <> Panic.
Proof. exact no_panic_step_proof. Qed.
Theorem no_panic_boundary : forall s, try_interrupt s <> Panic.
Proof. exact no_panic_boundary_proof. Qed.
Theorem no_panic_iter : forall batch r, iter batch r <> Crashed.
Proof. exact no_panic_iter_proof. Qed.

(* an instruction fetch outside mapped memory is reported as an error *)
Theorem unmapped_fetch_is_error :
  forall s, bus_read (cbus s) (Z.land (pc s) 4294967294) = None -> step s = Err.
Proof. exact unmapped_fetch_is_error_proof. Qed.

Example c15_example : exists s, bus_read (cbus s) (Z.land (pc s) 4294967294) = None.
Proof.
  exists (mkCpu 0x1234566 0 0 regs0 (mkBus (snew (fun _ => 0)) (snew (fun _ => 0)) (snew (fun _ => 0)) (snew (fun _ => 0)) (snew (fun _ => 0)) (snew (fun _ => 0)) (snew (fun _ => 0)) 0 nil timer0) nil 0 0 false false nil false).
  reflexivity.
Qed.

Print Assumptions no_panic_step.
Print Assumptions no_panic_boundary.
Print Assumptions no_panic_iter.
Print Assumptions unmapped_fetch_is_error.
