(* C11 — ELF loading places every segment byte and relocates the GOT exactly once. *)
From Coq Require Import Bool ZArith List.
From K Require Import Lib.Types Model.Machine Model.Bus Model.Elf Spec.ElfSpec Proofs.ElfProofs Proofs.ElfLoad Proofs.ElfFacts.
Import ListNotations.
Open Scope Z_scope.

(* For every file and argument string of the domain (wf_elf: a structurally valid ELF32-BE executable), loading into
   zeroed DRAM succeeds, and the resulting machine is the initial one except for: DRAM, whose every byte is the
   reference's point-wise expected byte; the general registers; the exit address.  In particular nothing outside
   DRAM (vector area, on-chip RAM, I/O registers, port state, messages, timer) is modified. *)
Theorem load_refines :
  forall f args s,
    wf_elf f args = true -> (forall j, 0 <= j -> sget (b_dram (cbus s)) j = 0) ->
    exists s' d,
      load f args s = Some s' /\
      s' = set_exit (x_exit (expected_of f args (er s) (exit_addr s)))
             (set_regs (x_er (expected_of f args (er s) (exit_addr s))) (set_bus (bset_dram d (cbus s)) s)) /\
      forall j, 0 <= j -> sget d j = x_dram (expected_of f args (er s) (exit_addr s)) j.
Proof. exact load_refines_proof. Qed.

(* what the expected image is, below the argument block: DRAM index OFF + a holds image byte a *)
Theorem image_in_dram :
  forall f args got j, xdram f args got None j = if OFF <=? j then image_byte f (ref_phdrs f) got (j - OFF) else 0.
Proof. exact xdram_nostack. Qed.

(* every byte of the file contents of every PT_LOAD segment (non-overlapping segments, filesz <= memsz) is the image
   byte at p_vaddr + k *)
Theorem segments_placed :
  forall f phs l1 ph l2 k,
    phs = l1 ++ ph :: l2 -> disjoint_loads phs = true ->
    (forall q, In q phs -> is_load q = true -> p_filesz q <= p_memsz q) ->
    is_load ph = true -> 0 <= k < p_filesz ph ->
    file_byte f phs (p_vaddr ph + k) = at8 f (p_offset ph + k).
Proof. exact segment_byte. Qed.

(* .bss and gaps: image bytes not covered by any segment's file contents are zero *)
Theorem uncovered_bytes_zero :
  forall f phs a, (forall q, In q phs -> covers q a = false) -> file_byte f phs a = 0.
Proof. exact uncovered_zero. Qed.

(* every entry of .got = its value in the file + the load base, once, big-endian, modulo 2^32 *)
Theorem got_relocated_once :
  forall f phs g k, 0 <= k < sh_size g / 4 ->
    image_word f phs (Some g) (sh_addr g + 4 * k) = (file_word f phs (sh_addr g + 4 * k) + BASE) mod 4294967296.
Proof. exact got_entry. Qed.

(* bytes outside the GOT are not relocated *)
Theorem outside_got_untouched :
  forall f phs g a, a < sh_addr g \/ sh_addr g + 4 * (sh_size g / 4) <= a ->
    image_byte f phs (Some g) a = file_byte f phs a.
Proof. exact outside_got. Qed.

(* the nom-style sequential readers deliver the ELF32 fields found at their fixed offsets *)
Theorem header_fields_at_their_offsets :
  forall f, 52 <= flen f -> bytes_eq (firstn 4 f) [0x7f; 69; 76; 70] = true ->
    parse_elf_header32 f = Some (ref_ehdr f, skz f 52).
Proof. exact parse_header_at. Qed.

Theorem program_header_fields_at_their_offsets :
  forall f o, 0 <= o -> o + 32 <= flen f -> parse_program_header32 (skz f o) = Some (phdr_at f o, skz f (o + 32)).
Proof. exact parse_phdr_at. Qed.

Theorem section_header_fields_at_their_offsets :
  forall f o, 0 <= o -> o + 40 <= flen f -> parse_section_header32 (skz f o) = Some (shdr_at f o, skz f (o + 40)).
Proof. exact parse_shdr_at. Qed.

(* non-vacuity: a small two-segment file with a .got is in the domain *)
Example c11_byte_of : byte_of 0x12345678 0 = 0x12 /\ byte_of 0x12345678 3 = 0x78.
Proof. split; reflexivity. Qed.

Print Assumptions load_refines.
Print Assumptions image_in_dram.
Print Assumptions segments_placed.
Print Assumptions uncovered_bytes_zero.
Print Assumptions got_relocated_once.
Print Assumptions outside_got_untouched.
Print Assumptions header_fields_at_their_offsets.
Print Assumptions program_header_fields_at_their_offsets.
Print Assumptions section_header_fields_at_their_offsets.
