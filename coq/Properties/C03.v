(* C03 — logic, shift and rotate instructions match the manual bit for bit. *)
From Coq Require Import Bool ZArith List.
From K Require Import Lib.Types Model.Machine Model.Alu Model.Exec Spec.ISA Proofs.FlagProofs Proofs.AluProofs.
From K Require Import Model.Bus Model.Cost Model.Addressing Proofs.RegProofs Proofs.StepProofs.
From K Require Import Model.Cost Model.Addressing Model.Exec Proofs.MemProofs Proofs.StepProofs Proofs.CtlProofs Proofs.StepRefines.
From K Require Import Proofs.StepRefines4 Proofs.StepRefinesL.
Open Scope Z_scope.

Theorem logic2_kernel :
  forall o n a b c, (o = AAnd \/ o = AOr \/ o = AXor) ->
    width n -> 0 <= a < 2^n -> 0 <= b < 2^n -> 0 <= c < 256 ->
    alu2_fun o n a b c = alu2_ref o n a b c.
Proof.
  intros o n a b c Ho Hn. apply alu2_fun_spec; [exact Hn|].
  intros E. subst o. destruct Ho as [H|[H|H]]; discriminate H.
Qed.

(* NOT, EXTU, SHLL, SHLR, SHAR, ROTL, ROTR, ROTXL, ROTXR for every operand; SHAL for every operand outside
   the recorded known-finding class (bit n-2 of the operand set), where only V is concerned *)
Theorem logic1_kernel :
  forall o n v c,
    (o <> UNeg /\ o <> UInc1 /\ o <> UInc2 /\ o <> UDec1 /\ o <> UDec2) ->
    width n -> alu1_defined o n -> 0 <= v < 2^n -> 0 <= c < 256 ->
    (o = UShal -> shal_known n v = false) ->
    alu1_fun o n v c = alu1_ref o n v c.
Proof. intros o n v c _. apply alu1_fun_spec. Qed.

(* inside the class SHAL still delivers the reference result and every flag but V *)
Theorem shal_all_but_v :
  forall n v c, width n -> 0 <= v < 2^n -> 0 <= c < 256 ->
    fst (shal_proc n v c) = fst (alu1_ref UShal n v c) /\
    forall u, 0 <= u < 8 -> u <> fV -> flag (snd (shal_proc n v c)) u = flag (snd (alu1_ref UShal n v c)) u.
Proof. exact shal_spec_but_v. Qed.

(* the known finding is genuine: H'40 shifted left changes sign, the code reports V = 0 *)
Theorem shal_v_refuted :
  exists n v c, width n /\ 0 <= v < 2^n /\ 0 <= c < 256 /\ shal_known n v = true /\
    flag (snd (shal_proc n v c)) fV <> flag (snd (alu1_ref UShal n v c)) fV.
Proof.
  exists 8, 0x40, 0. repeat split; try (unfold width; auto); try (vm_compute; congruence).
Qed.

Example c03_example : alu1_fun URotxl 16 0x8001 0x01 = (0x0003, 0x01) /\ shal_known 8 0x3f = false.
Proof. split; vm_compute; reflexivity. Qed.


(* instruction level: AND / OR / XOR Rs,Rd (B, W and the one-word forms) *)
Theorem logic_rr_refines :
  forall o z op s n,
    (o = AAnd \/ o = AOr \/ o = AXor) ->
    cpu_ok s ->
    let rs := match z with SL => Z.land (nib op 3) 7 | _ => nib op 3 end in
    let rd := nib op 4 in
    field_ok z rs -> field_ok z rd ->
    cs KI 1 s = Ok n s ->
    run_tag (TAlu2Rn o z) op 0 0 s =
    Ok n (let '(r, c) := alu2_ref o (bits_of z) (reg z s rd) (reg z s rs) (ccr s) in with_ccr c (set_reg z s rd r)).
Proof.
  intros o z op s n Ho Hok rs rd Hrs Hrd Hcs.
  rewrite (alu2_rn_refines o z op s n Hok Hrs Hrd); [|intros E; subst o; destruct Ho as [H|[H|H]]; discriminate H|exact Hcs].
  destruct Ho as [ -> | [ -> | -> ] ]; reflexivity.
Qed.

(* instruction level: NOT, EXTU and the eight one-bit shifts / rotates (SHAL outside its known class) *)
Theorem shift_refines :
  forall o z op s n,
    (o <> UNeg /\ o <> UInc1 /\ o <> UInc2 /\ o <> UDec1 /\ o <> UDec2) ->
    cpu_ok s -> let rd := nib op 4 in
    field_ok z rd -> alu1_defined o (bits_of z) ->
    (o = UShal -> shal_known (bits_of z) (reg z s rd) = false) ->
    cs KI 1 s = Ok n s ->
    run_tag (TAlu1 o z) op 0 0 s =
    Ok n (let '(r, c) := alu1_ref o (bits_of z) (reg z s rd) (ccr s) in with_ccr c (set_reg z s rd r)).
Proof. intros o z op s n _. apply alu1_refines. Qed.

(* ---- from the instruction word in memory to the reference semantics, in one statement ----
   s is ANY machine state whose PC is even and whose instruction word w can be fetched; w1..w4 are whatever follows it.
   If the operation-code map decodes w as the two-byte instruction i, then one step of the model (fetch, dispatch, handler,
   charge of one instruction-fetch cycle at the instruction's address) ends in exactly the state the reference semantics
   sem_ref assigns (plus the bookkeeping field operating_pc). *)
Theorem step_logic_register :
  forall s w w1 w2 w3 w4 o z rs rd n,
    cpu_ok s -> bus_bytes_ok s -> fault s = false -> pc s mod 2 = 0 -> 0 <= pc s -> pc s + 2 < 4294967296 ->
    mem_read SW s (pc s) = Some w ->
    decode_ref w w1 w2 w3 w4 = Some (IAlu2R o z rs rd, 2) ->
    cs KI 1 (post_fetch s) = Ok n (post_fetch s) ->
    exists s', sem_ref (IAlu2R o z rs rd) 2 s = Some s' /\ step s = Ok n (set_opc (pc s) s').
Proof. exact step_alu2_rr_proof. Qed.

(* NOT, EXTU and the eight shifts / rotates (SHAL outside its recorded known class) *)
Theorem step_shift_register :
  forall s w w1 w2 w3 w4 o z rd n,
    cpu_ok s -> bus_bytes_ok s -> fault s = false -> pc s mod 2 = 0 -> 0 <= pc s -> pc s + 2 < 4294967296 ->
    mem_read SW s (pc s) = Some w ->
    decode_ref w w1 w2 w3 w4 = Some (IAlu1 o z rd, 2) ->
    (o = UShal -> shal_known (bits_of z) (reg z s rd) = false) ->
    cs KI 1 (post_fetch s) = Ok n (post_fetch s) ->
    exists s', sem_ref (IAlu1 o z rd) 2 s = Some s' /\ step s = Ok n (set_opc (pc s) s').
Proof. exact step_alu1_proof. Qed.

(* AND.L / OR.L / XOR.L ERs,ERd (prefix 01F0): both instruction words in memory, any state *)
Theorem step_logic_long :
  forall s w1 w2 w3 w4 o rs rd n,
    cpu_ok s -> bus_bytes_ok s -> fault s = false -> pc s mod 2 = 0 -> 0 <= pc s -> pc s + 4 < 4294967296 ->
    mem_read SW s (pc s) = Some 0x01f0 -> mem_read SW s (pc s + 2) = Some w1 ->
    decode_ref 0x01f0 w1 w2 w3 w4 = Some (IAlu2R o SL rs rd, 4) ->
    cs KI 2 (post_fetch2 s) = Ok n (post_fetch2 s) ->
    exists s', sem_ref (IAlu2R o SL rs rd) 4 s = Some s' /\ step s = Ok n (set_opc (pc s + 2) s').
Proof. exact step_logic_l_proof. Qed.

Print Assumptions logic2_kernel.
Print Assumptions logic1_kernel.
Print Assumptions shal_all_but_v.
Print Assumptions shal_v_refuted.
Print Assumptions logic_rr_refines.
Print Assumptions shift_refines.
Print Assumptions step_logic_register.
Print Assumptions step_shift_register.
Print Assumptions step_logic_long.
