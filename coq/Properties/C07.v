(* C07 — every opcode is executed as exactly the instruction it encodes, or rejected. *)
From Coq Require Import Bool ZArith List.
From K Require Import Lib.Bits Lib.Types Model.Machine Model.Exec Spec.ISA
  Proofs.DecodeProofs Proofs.DecodeProofs78 Proofs.DecodeProofsBitC Proofs.DecodeProofsBitD Proofs.DecodeProofsBitEF.
Import ListNotations.
From K Require Import Proofs.TwoByte.
From K Require Import Model.Cost Model.Addressing Proofs.MemProofs Proofs.StepProofs Proofs.StepRefines Proofs.StepRefinesCtl Proofs.StepRefines2.
From K Require Import Proofs.FourByte Proofs.StepRefines4.
From K Require Import Model.Bus Spec.MemMap Spec.Price Spec.Domains Proofs.PriceProofs Proofs.RegProofs Proofs.ChargeTotals Proofs.RefStep Proofs.FrameRest Proofs.Preserve Proofs.ExampleState.
From K Require Import Model.Ops.
From Coq Require Import Lia ZifyBool.
Open Scope Z_scope.

(* [agree t w0 w1 i]: handler family t, run on the opcode words, executes instruction i - same family, same
   operand size, and the register / bit / condition fields the handler extracts are the operands of i;
   for i = one of the listed unimplemented instructions: t is a failing handler. *)

(* all 65 536 first words (following words 0: they only carry operand values) *)
Theorem first_word_dispatch :
  forall w, 0 <= w < 65536 ->
    match decode_ref w 0 0 0 0 with
    | Some (i, _) => is_prefix (select1 w) = true \/ agree (select1 w) w 0 i = true
    | None => True
    end.
Proof.
  intros w Hw. pose proof (forallb_zrange _ 65536 first_word_sweep w Hw) as H. unfold agree1 in H.
  destruct (decode_ref w 0 0 0 0) as [[i len]|]; [|exact I].
  apply Bool.orb_true_iff in H. exact H.
Qed.

(* an unimplemented instruction recognised from its first word is rejected: execution returns an error *)
Theorem unimplemented_rejected :
  forall w len s, 0 <= w < 65536 -> decode_ref w 0 0 0 0 = Some (IUnimplemented, len) ->
    is_prefix (select1 w) = false -> exec w s = Err.
Proof.
  intros w len s Hw Hd Hp. pose proof (first_word_dispatch w Hw) as H. rewrite Hd in H.
  destruct H as [H|H]; [congruence|]. cbn [agree] in H.
  unfold exec. destruct (select1 w); try discriminate; reflexivity.
Qed.

(* every second word of the prefix groups 0100 (MOV.L), 0140 (STC.W / LDC.W), 01F0 (AND/OR/XOR.L) *)
Theorem second_word_dispatch_01 :
  forall w1 w2, 0 <= w1 < 65536 -> (w2 = 0x6ba0 \/ w2 = 0) ->
    (match decode_ref 0x0100 w1 w2 0 0 with Some (i, _) => agree (select_movl w1) 0x0100 w1 i = true | None => True end) /\
    (match decode_ref 0x0140 w1 w2 0 0 with Some (i, _) => agree (select_stc w1) 0x0140 w1 i = true | None => True end) /\
    (w2 = 0 -> match decode_ref 0x01f0 w1 0 0 0 with Some (i, _) => agree (select_logicl w1) 0x01f0 w1 i = true | None => True end).
Proof.
  intros w1 w2 Hw H2.
  destruct movl_sweep as (M1 & _ & M3). destruct stc_sweep as (S1 & S2).
  pose proof (forallb_zrange _ 65536 M1 w1 Hw) as A1. pose proof (forallb_zrange _ 65536 M3 w1 Hw) as A3.
  pose proof (forallb_zrange _ 65536 S1 w1 Hw) as B1. pose proof (forallb_zrange _ 65536 S2 w1 Hw) as B2.
  pose proof (forallb_zrange _ 65536 logicl_sweep w1 Hw) as C1.
  unfold agree2 in *.
  destruct H2 as [ -> | -> ]; (split; [|split]).
  - destruct (decode_ref 256 w1 27552 0 0) as [[i l]|]; auto.
  - destruct (decode_ref 320 w1 27552 0 0) as [[i l]|]; auto.
  - intros E; discriminate E.
  - destruct (decode_ref 256 w1 0 0 0) as [[i l]|]; auto.
  - destruct (decode_ref 320 w1 0 0 0) as [[i l]|]; auto.
  - intros _. destruct (decode_ref 496 w1 0 0 0) as [[i l]|]; auto.
Qed.

(* every second word after 78r0 (MOV.B/W @(d:24,ERn)) and after the bit-instruction prefixes 7Cr0, 7Dr0 (all r)
   and 7E/7F aa (aa = 00, 5A, FF) *)
Theorem second_word_dispatch_78_7x :
  forall w0 w1, 0 <= w1 < 65536 ->
    (In w0 prefix_78 -> match decode_ref w0 w1 0 0 0 with Some (i, _) => agree (select_78 w1) w0 w1 i = true | None => True end) /\
    (In w0 (prefix_bit_C ++ prefix_bit_D ++ prefix_bit_EF) ->
       match decode_ref w0 w1 0 0 0 with Some (i, _) => agree (select_bit w0 w1) w0 w1 i = true | None => True end).
Proof.
  intros w0 w1 Hw. split.
  - intros Hin. pose proof mov78_sweep as S. rewrite forallb_forall in S. specialize (S w0 Hin).
    pose proof (forallb_zrange _ 65536 S w1 Hw) as A. unfold agree2 in A.
    destruct (decode_ref w0 w1 0 0 0) as [[i l]|]; auto.
  - intros Hin.
    assert (S : forallb (agree2 w0 (select_bit w0) 0) (zrange 65536) = true).
    { apply in_app_or in Hin. destruct Hin as [Hin|Hin].
      - pose proof bit_sweep_C as S. rewrite forallb_forall in S. exact (S w0 Hin).
      - apply in_app_or in Hin. destruct Hin as [Hin|Hin].
        + pose proof bit_sweep_D as S. rewrite forallb_forall in S. exact (S w0 Hin).
        + pose proof bit_sweep_EF as S. rewrite forallb_forall in S. exact (S w0 Hin). }
    pose proof (forallb_zrange _ 65536 S w1 Hw) as A. unfold agree2 in A.
    destruct (decode_ref w0 w1 0 0 0) as [[i l]|]; auto.
Qed.

Example c07_example :
  decode_ref 0x0801 0 0 0 0 = Some (IAlu2R AAdd SB 0 1, 2) /\ select1 0x0801 = TAlu2Rn AAdd SB /\
  decode_ref 0x0f03 0 0 0 0 = Some (IUnimplemented, 2) /\ select1 0x0f03 = TUnimpl.
Proof. repeat split; vm_compute; reflexivity. Qed.

(* a two-byte instruction is recognised from its first word alone: the following words do not matter *)
Theorem two_byte_decode_ignores_later_words :
  forall w0 w1 w2 w3 w4 i, decode_ref w0 w1 w2 w3 w4 = Some (i, 2) -> decode_ref w0 0 0 0 0 = Some (i, 2).
Proof. exact two_byte_independent. Qed.

(* STC.B CCR,Rd: from the instruction word in memory to sem_ref *)
Theorem step_stc_byte :
  forall s w w1 w2 w3 w4 rd n,
    cpu_ok s -> bus_bytes_ok s -> fault s = false -> pc s mod 2 = 0 -> 0 <= pc s -> pc s + 2 < 4294967296 ->
    mem_read SW s (pc s) = Some w ->
    decode_ref w w1 w2 w3 w4 = Some (IStcB rd, 2) ->
    cs KI 1 (post_fetch s) = Ok n (post_fetch s) ->
    exists s', sem_ref (IStcB rd) 2 s = Some s' /\ step s = Ok n (set_opc (pc s) s').
Proof. exact step_stc_b_proof. Qed.

(* every two-byte encoding of a listed unimplemented instruction: the step returns an error, for any state *)
Theorem step_unimplemented_rejected :
  forall s w w1 w2 w3 w4,
    bus_bytes_ok s -> pc s mod 2 = 0 -> 0 <= pc s -> pc s + 2 < 4294967296 ->
    mem_read SW s (pc s) = Some w ->
    decode_ref w w1 w2 w3 w4 = Some (IUnimplemented, 2) ->
    step s = Err.
Proof. exact step_unimplemented_proof. Qed.

(* four-byte instructions with an operand word: everything but the operand comes from the first word *)
Theorem four_byte_decode_operand :
  forall w0 w1 w2 w3 w4 i, decode_ref w0 w1 w2 w3 w4 = Some (i, 4) -> operand_shape w0 w1 i.
Proof. exact four_byte_operand. Qed.

(* ---- the instruction at PC is executed as exactly the instruction the operation-code map decodes there ----
   For EVERY well-formed machine state s (32-bit registers, byte-sized CCR and memory cells, no pending fetch fault): if the
   operation-code map decodes the words at PC as instruction i of length len (ref_decode reads up to five words), the state
   is inside the domain the correspondence check claims (exec_dom data_ok: instruction in on-chip RAM or DRAM at an even
   address, operands / stack / vectors in on-chip RAM, DRAM or the vector area, aligned, targets even, no overlap with the
   instruction's own bytes) and the reference semantics is defined, then the model's [step] - fetch of every word, both
   dispatch levels, the handler, its charge - ends in exactly the reference's state (plus the operating-PC bookkeeping
   field) and charges exactly the reference's cycle table priced by the C19 list.
   [side_ok] only excludes the two recorded known findings: SHAL inside its known class (V flag) and STC.W @-ERd.
   (The domain excludes a JSR @@aa:8 whose pushed frame covers the vector it reads: the manual leaves the order open.) *)
Theorem step_executes_the_decoded_instruction :
  forall s i len s',
    state_ok s -> ref_decode s = Some (i, len) -> side_ok i s -> dom_c20 i len s = true -> sem_ref i len s = Some s' ->
    step s = Ok (charge_ref i len s) (set_opc (pc s + len - 2) s').
Proof. exact step_is_ref_step_proof. Qed.

(* the same, through the reference step function the correspondence check evaluates *)
Theorem step_is_the_reference_step :
  forall s i len s',
    state_ok s -> ref_decode s = Some (i, len) -> side_ok i s -> dom_c20 i len s = true -> ref_step s = Some s' ->
    step s = Ok (charge_ref i len s) (set_opc (pc s + len - 2) s').
Proof. exact step_is_ref_step_via_ref_step. Qed.

(* ... and it touches nothing else: the bus-controller and I/O registers, port pins and latches, the timer, the time base, the
   messages sent, the request queue, exit address, console output and fault flag are those of the state before *)
Theorem step_touches_only_registers_and_plain_memory :
  forall s i len s' n s2,
    state_ok s -> ref_decode s = Some (i, len) -> side_ok i s -> dom_c20 i len s = true -> sem_ref i len s = Some s' ->
    step s = Ok n s2 -> rest s2 = rest s.
Proof. exact step_leaves_rest_proof. Qed.

(* well-formedness is an invariant: of the reference semantics inside the domain, hence of the model's step *)
Theorem reference_preserves_well_formedness :
  forall i len s s', state_ok s -> operands_ok i -> dom_c20 i len s = true -> sem_ref i len s = Some s' -> state_ok s'.
Proof. exact sem_ref_state_ok. Qed.
Theorem step_preserves_well_formedness :
  forall s i len s' n s2,
    state_ok s -> ref_decode s = Some (i, len) -> side_ok i s -> dom_c20 i len s = true -> sem_ref i len s = Some s' ->
    step s = Ok n s2 -> state_ok s2.
Proof. exact step_preserves_state_ok. Qed.

(* ... so the statement extends to ANY number of instructions: if the reference executes n instructions from s without leaving
   the domain (ref_exec: decode, domain test, reference semantics, n times; total of the priced cycle tables), then n steps of
   the model from s end in exactly that state with exactly that total ([stepn n 0]: what the stepn: operation of the
   correspondence protocol runs), and the final state is well-formed again *)
Theorem any_number_of_steps_is_the_reference_execution :
  forall n s c s2, state_ok s -> ref_exec n s = Some (c, s2) -> stepn n 0 s = Ok c s2 /\ state_ok s2.
Proof. exact steps_are_ref_steps. Qed.

(* the hypotheses are satisfiable: MOV.B R0H,R1H (0C 01) at H'FFC000 in on-chip RAM *)
Definition c07_ex_state : cpu := ex_state 0.

Example c07_step_example :
  state_ok c07_ex_state /\ ref_decode c07_ex_state = Some (IMovRR SB 0 1, 2) /\ side_ok (IMovRR SB 0 1) c07_ex_state /\
  dom_c20 (IMovRR SB 0 1) 2 c07_ex_state = true /\ exists s', sem_ref (IMovRR SB 0 1) 2 c07_ex_state = Some s'.
Proof.
  split; [apply ex_state_ok|split; [vm_compute; reflexivity|split; [exact I|split; [vm_compute; reflexivity|eexists; reflexivity]]]].
Qed.

Example c07_exec_example : exists c s2, ref_exec 1 c07_ex_state = Some (c, s2).
Proof. eexists. eexists. vm_compute. reflexivity. Qed.

Print Assumptions first_word_dispatch.
Print Assumptions unimplemented_rejected.
Print Assumptions second_word_dispatch_01.
Print Assumptions second_word_dispatch_78_7x.
Print Assumptions two_byte_decode_ignores_later_words.
Print Assumptions step_stc_byte.
Print Assumptions step_unimplemented_rejected.
Print Assumptions four_byte_decode_operand.
Print Assumptions step_executes_the_decoded_instruction.
Print Assumptions step_is_the_reference_step.
Print Assumptions step_touches_only_registers_and_plain_memory.
Print Assumptions reference_preserves_well_formedness.
Print Assumptions step_preserves_well_formedness.
Print Assumptions any_number_of_steps_is_the_reference_execution.
