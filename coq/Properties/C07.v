(* C07 — every opcode is executed as exactly the instruction it encodes, or rejected. *)
From Coq Require Import Bool ZArith List.
From K Require Import Lib.Bits Lib.Types Model.Machine Model.Exec Spec.ISA
  Proofs.DecodeProofs Proofs.DecodeProofs78 Proofs.DecodeProofsBitC Proofs.DecodeProofsBitD Proofs.DecodeProofsBitEF.
Import ListNotations.
From K Require Import Proofs.TwoByte.
From K Require Import Model.Cost Model.Addressing Proofs.MemProofs Proofs.StepProofs Proofs.StepRefines Proofs.StepRefinesCtl Proofs.StepRefines2.
From K Require Import Proofs.FourByte Proofs.StepRefines4.
Open Scope Z_scope.

(* [agree t w0 w1 i]: handler family t, run on the opcode words, executes instruction i - same family, same
   operand size, and the register / bit / condition fields the handler extracts are the operands of i;
   for i = one of the listed unimplemented instructions: t is a failing handler. *)

(* all 65 536 first words (following words 0: they only carry operand values) *)
Theorem first_word_dispatch :
  forall w, 0 <= w < 65536 ->
    match decode_ref w 0 0 0 0 with
    | Some (i, _) => is_prefix (select1 w) = true \/ agree (select1 w) w 0 i = true
    | None => True
    end.
Proof.
  intros w Hw. pose proof (forallb_zrange _ 65536 first_word_sweep w Hw) as H. unfold agree1 in H.
  destruct (decode_ref w 0 0 0 0) as [[i len]|]; [|exact I].
  apply Bool.orb_true_iff in H. exact H.
Qed.

(* an unimplemented instruction recognised from its first word is rejected: execution returns an error *)
Theorem unimplemented_rejected :
  forall w len s, 0 <= w < 65536 -> decode_ref w 0 0 0 0 = Some (IUnimplemented, len) ->
    is_prefix (select1 w) = false -> exec w s = Err.
Proof.
  intros w len s Hw Hd Hp. pose proof (first_word_dispatch w Hw) as H. rewrite Hd in H.
  destruct H as [H|H]; [congruence|]. cbn [agree] in H.
  unfold exec. destruct (select1 w); try discriminate; reflexivity.
Qed.

(* every second word of the prefix groups 0100 (MOV.L), 0140 (STC.W / LDC.W), 01F0 (AND/OR/XOR.L) *)
Theorem second_word_dispatch_01 :
  forall w1 w2, 0 <= w1 < 65536 -> (w2 = 0x6ba0 \/ w2 = 0) ->
    (match decode_ref 0x0100 w1 w2 0 0 with Some (i, _) => agree (select_movl w1) 0x0100 w1 i = true | None => True end) /\
    (match decode_ref 0x0140 w1 w2 0 0 with Some (i, _) => agree (select_stc w1) 0x0140 w1 i = true | None => True end) /\
    (w2 = 0 -> match decode_ref 0x01f0 w1 0 0 0 with Some (i, _) => agree (select_logicl w1) 0x01f0 w1 i = true | None => True end).
Proof.
  intros w1 w2 Hw H2.
  destruct movl_sweep as (M1 & _ & M3). destruct stc_sweep as (S1 & S2).
  pose proof (forallb_zrange _ 65536 M1 w1 Hw) as A1. pose proof (forallb_zrange _ 65536 M3 w1 Hw) as A3.
  pose proof (forallb_zrange _ 65536 S1 w1 Hw) as B1. pose proof (forallb_zrange _ 65536 S2 w1 Hw) as B2.
  pose proof (forallb_zrange _ 65536 logicl_sweep w1 Hw) as C1.
  unfold agree2 in *.
  destruct H2 as [ -> | -> ]; (split; [|split]).
  - destruct (decode_ref 256 w1 27552 0 0) as [[i l]|]; auto.
  - destruct (decode_ref 320 w1 27552 0 0) as [[i l]|]; auto.
  - intros E; discriminate E.
  - destruct (decode_ref 256 w1 0 0 0) as [[i l]|]; auto.
  - destruct (decode_ref 320 w1 0 0 0) as [[i l]|]; auto.
  - intros _. destruct (decode_ref 496 w1 0 0 0) as [[i l]|]; auto.
Qed.

(* every second word after 78r0 (MOV.B/W @(d:24,ERn)) and after the bit-instruction prefixes 7Cr0, 7Dr0 (all r)
   and 7E/7F aa (aa = 00, 5A, FF) *)
Theorem second_word_dispatch_78_7x :
  forall w0 w1, 0 <= w1 < 65536 ->
    (In w0 prefix_78 -> match decode_ref w0 w1 0 0 0 with Some (i, _) => agree (select_78 w1) w0 w1 i = true | None => True end) /\
    (In w0 (prefix_bit_C ++ prefix_bit_D ++ prefix_bit_EF) ->
       match decode_ref w0 w1 0 0 0 with Some (i, _) => agree (select_bit w0 w1) w0 w1 i = true | None => True end).
Proof.
  intros w0 w1 Hw. split.
  - intros Hin. pose proof mov78_sweep as S. rewrite forallb_forall in S. specialize (S w0 Hin).
    pose proof (forallb_zrange _ 65536 S w1 Hw) as A. unfold agree2 in A.
    destruct (decode_ref w0 w1 0 0 0) as [[i l]|]; auto.
  - intros Hin.
    assert (S : forallb (agree2 w0 (select_bit w0) 0) (zrange 65536) = true).
    { apply in_app_or in Hin. destruct Hin as [Hin|Hin].
      - pose proof bit_sweep_C as S. rewrite forallb_forall in S. exact (S w0 Hin).
      - apply in_app_or in Hin. destruct Hin as [Hin|Hin].
        + pose proof bit_sweep_D as S. rewrite forallb_forall in S. exact (S w0 Hin).
        + pose proof bit_sweep_EF as S. rewrite forallb_forall in S. exact (S w0 Hin). }
    pose proof (forallb_zrange _ 65536 S w1 Hw) as A. unfold agree2 in A.
    destruct (decode_ref w0 w1 0 0 0) as [[i l]|]; auto.
Qed.

Example c07_example :
  decode_ref 0x0801 0 0 0 0 = Some (IAlu2R AAdd SB 0 1, 2) /\ select1 0x0801 = TAlu2Rn AAdd SB /\
  decode_ref 0x0f03 0 0 0 0 = Some (IUnimplemented, 2) /\ select1 0x0f03 = TUnimpl.
Proof. repeat split; vm_compute; reflexivity. Qed.

(* a two-byte instruction is recognised from its first word alone: the following words do not matter *)
Theorem two_byte_decode_ignores_later_words :
  forall w0 w1 w2 w3 w4 i, decode_ref w0 w1 w2 w3 w4 = Some (i, 2) -> decode_ref w0 0 0 0 0 = Some (i, 2).
Proof. exact two_byte_independent. Qed.

(* STC.B CCR,Rd: from the instruction word in memory to sem_ref *)
Theorem step_stc_byte :
  forall s w w1 w2 w3 w4 rd n,
    cpu_ok s -> bus_bytes_ok s -> fault s = false -> pc s mod 2 = 0 -> 0 <= pc s -> pc s + 2 < 4294967296 ->
    mem_read SW s (pc s) = Some w ->
    decode_ref w w1 w2 w3 w4 = Some (IStcB rd, 2) ->
    cs KI 1 (post_fetch s) = Ok n (post_fetch s) ->
    exists s', sem_ref (IStcB rd) 2 s = Some s' /\ step s = Ok n (set_opc (pc s) s').
Proof. exact step_stc_b_proof. Qed.

(* every two-byte encoding of a listed unimplemented instruction: the step returns an error, for any state *)
Theorem step_unimplemented_rejected :
  forall s w w1 w2 w3 w4,
    bus_bytes_ok s -> pc s mod 2 = 0 -> 0 <= pc s -> pc s + 2 < 4294967296 ->
    mem_read SW s (pc s) = Some w ->
    decode_ref w w1 w2 w3 w4 = Some (IUnimplemented, 2) ->
    step s = Err.
Proof. exact step_unimplemented_proof. Qed.

(* four-byte instructions with an operand word: everything but the operand comes from the first word *)
Theorem four_byte_decode_operand :
  forall w0 w1 w2 w3 w4 i, decode_ref w0 w1 w2 w3 w4 = Some (i, 4) -> operand_shape w0 w1 i.
Proof. exact four_byte_operand. Qed.

Print Assumptions first_word_dispatch.
Print Assumptions unimplemented_rejected.
Print Assumptions second_word_dispatch_01.
Print Assumptions second_word_dispatch_78_7x.
Print Assumptions two_byte_decode_ignores_later_words.
Print Assumptions step_stc_byte.
Print Assumptions step_unimplemented_rejected.
Print Assumptions four_byte_decode_operand.
