(* C01 — MOV / PUSH / POP move the exact value to the exact place and touch nothing else. *)
From Coq Require Import Bool ZArith List.
From K Require Import Lib.Types Model.Machine Model.Bus Model.Cost Model.Addressing Model.Alu Model.Exec Spec.MemMap Spec.ISA
  Proofs.FlagProofs Proofs.AluProofs Proofs.RegProofs Proofs.BusProofs Proofs.StepProofs.
Open Scope Z_scope.

(* MOV Rs,Rd (B/W/L): the value of the source lane is copied unchanged into the destination lane, N and Z
   come from it, V is cleared, every other CCR bit, every other register lane and the bus are untouched *)
Theorem mov_register_refines :
  forall z op s n,
    cpu_ok s ->
    let rs := match z with SL => Z.land (nib op 3) 7 | _ => nib op 3 end in
    let rd := nib op 4 in
    field_ok z rs -> field_ok z rd ->
    cs KI 1 s = Ok n s ->
    run_tag (TMovRn z) op 0 0 s =
    Ok n (let v := reg z s rs in
          with_ccr (set_flag fV false (set_nz (bits_of z) v (ccr s))) (set_reg z s rd v)).
Proof. exact mov_rr_refines. Qed.

(* the flag rule of every MOV form *)
Theorem mov_flags_rule :
  forall n v c, width n -> 0 <= v < 2^n -> 0 <= c < 256 ->
    mov_flags n v c = set_flag fV false (set_nz n v c).
Proof. exact logic_flags_spec. Qed.

(* register lanes: the 4-bit field selects RnH/RnL resp. Rn/En; a lane write changes only that lane *)
Theorem byte_lane_read : forall r s, 0 <= r < 16 -> read_rn_b r s = Ok (reg8 s r) s.
Proof. exact read_rn_b_spec. Qed.
Theorem byte_lane_write : forall r v s, 0 <= r < 16 -> 0 <= v < 256 -> regs_ok s -> write_rn_b r v s = Ok tt (set_reg8 s r v).
Proof. exact write_rn_b_spec. Qed.
Theorem word_lane_read : forall r s, 0 <= r < 16 -> read_rn_w r s = Ok (reg16 s r) s.
Proof. exact read_rn_w_spec. Qed.
Theorem word_lane_write : forall r v s, 0 <= r < 16 -> 0 <= v < 65536 -> regs_ok s -> write_rn_w r v s = Ok tt (set_reg16 s r v).
Proof. exact write_rn_w_spec. Qed.

(* memory operands are big-endian (shared with C09) *)
Theorem mov_word_big_endian :
  forall s a b0 b1,
    bus_read (cbus s) a = Some b0 -> bus_read (cbus s) (a + 1) = Some b1 -> 0 <= b1 < 256 ->
    read_abs24_w a s = Ok (256 * b0 + b1) s.
Proof. exact read_w_big_endian. Qed.

Example c01_example : reg8 (set_reg8 (mkCpu 0 0 0 (mkRegs 0x11223344 0 0 0 0 0 0 0) (mkBus (snew (fun _ => 0)) (snew (fun _ => 0)) (snew (fun _ => 0)) (snew (fun _ => 0)) (snew (fun _ => 0)) (snew (fun _ => 0)) (snew (fun _ => 0)) 0 nil timer0) nil 0 0 false false nil false) 0 0xaa) 8 = 0x44.
Proof. vm_compute. reflexivity. Qed.

Print Assumptions mov_register_refines.
Print Assumptions mov_flags_rule.
Print Assumptions byte_lane_read.
Print Assumptions byte_lane_write.
Print Assumptions word_lane_read.
Print Assumptions word_lane_write.
Print Assumptions mov_word_big_endian.
