(* C01 — MOV / PUSH / POP move the exact value to the exact place and touch nothing else. *)
From Coq Require Import Bool ZArith List.
From K Require Import Lib.Types Model.Machine Model.Bus Model.Cost Model.Addressing Model.Alu Model.Exec Spec.MemMap Spec.ISA
  Proofs.FlagProofs Proofs.AluProofs Proofs.RegProofs Proofs.BusProofs Proofs.StepProofs Proofs.MemProofs Proofs.CtlProofs Proofs.MovProofs.
From K Require Import Proofs.StepRefines.
From K Require Import Proofs.StepRefinesCtl Proofs.StepRefines2.
From K Require Import Proofs.StepRefines4.
From K Require Import Proofs.StepRefinesL.
From K Require Import Proofs.MovExtProofs.
From K Require Import Proofs.StepRefines6.
From K Require Import Proofs.StepRefinesMov4 Proofs.StepRefinesMov6 Proofs.StepRefinesMovL Proofs.StepRefinesMov78 Proofs.StepRefinesMovL10.
Open Scope Z_scope.

(* MOV Rs,Rd (B/W/L): the value of the source lane is copied unchanged into the destination lane, N and Z
   come from it, V is cleared, every other CCR bit, every other register lane and the bus are untouched *)
Theorem mov_register_refines :
  forall z op s n,
    cpu_ok s ->
    let rs := match z with SL => Z.land (nib op 3) 7 | _ => nib op 3 end in
    let rd := nib op 4 in
    field_ok z rs -> field_ok z rd ->
    cs KI 1 s = Ok n s ->
    run_tag (TMovRn z) op 0 0 s =
    Ok n (let v := reg z s rs in
          with_ccr (set_flag fV false (set_nz (bits_of z) v (ccr s))) (set_reg z s rd v)).
Proof. exact mov_rr_refines. Qed.

(* the flag rule of every MOV form *)
Theorem mov_flags_rule :
  forall n v c, width n -> 0 <= v < 2^n -> 0 <= c < 256 ->
    mov_flags n v c = set_flag fV false (set_nz n v c).
Proof. exact logic_flags_spec. Qed.

(* register lanes: the 4-bit field selects RnH/RnL resp. Rn/En; a lane write changes only that lane *)
Theorem byte_lane_read : forall r s, 0 <= r < 16 -> read_rn_b r s = Ok (reg8 s r) s.
Proof. exact read_rn_b_spec. Qed.
Theorem byte_lane_write : forall r v s, 0 <= r < 16 -> 0 <= v < 256 -> regs_ok s -> write_rn_b r v s = Ok tt (set_reg8 s r v).
Proof. exact write_rn_b_spec. Qed.
Theorem word_lane_read : forall r s, 0 <= r < 16 -> read_rn_w r s = Ok (reg16 s r) s.
Proof. exact read_rn_w_spec. Qed.
Theorem word_lane_write : forall r v s, 0 <= r < 16 -> 0 <= v < 65536 -> regs_ok s -> write_rn_w r v s = Ok tt (set_reg16 s r v).
Proof. exact write_rn_w_spec. Qed.

(* memory operands are big-endian (shared with C09) *)
Theorem mov_word_big_endian :
  forall s a b0 b1,
    bus_read (cbus s) a = Some b0 -> bus_read (cbus s) (a + 1) = Some b1 -> 0 <= b1 < 256 ->
    read_abs24_w a s = Ok (256 * b0 + b1) s.
Proof. exact read_w_big_endian. Qed.

Example c01_example : reg8 (set_reg8 (mkCpu 0 0 0 (mkRegs 0x11223344 0 0 0 0 0 0 0) (mkBus (snew (fun _ => 0)) (snew (fun _ => 0)) (snew (fun _ => 0)) (snew (fun _ => 0)) (snew (fun _ => 0)) (snew (fun _ => 0)) (snew (fun _ => 0)) 0 nil timer0) nil 0 0 false false nil false) 0 0xaa) 8 = 0x44.
Proof. vm_compute. reflexivity. Qed.

(* ---- memory-operand forms: the model's handlers are the reference's state transformers followed by their charge,
   for every state (s: after the instruction words have been fetched), every size B/W/L, every address and register ---- *)
Theorem mov_load_at_address :
  forall z addr f icnt extra s, cpu_ok s -> bus_bytes_ok s -> field_ok z f ->
    mov_mem z true addr f icnt extra s =
    then_charge (option_map (fun v => with_ccr (mov_ccr z v (ccr s)) (set_reg z s f v)) (mem_read z s addr))
                (mov_charge z addr icnt extra).
Proof. exact mov_mem_load_proof. Qed.

Theorem mov_store_at_address :
  forall z addr f icnt extra s, cpu_ok s -> field_ok z f ->
    mov_mem z false addr f icnt extra s =
    then_charge (option_map (fun s2 => with_ccr (mov_ccr z (reg z s f) (ccr s)) s2) (mem_write z s addr (reg z s f)))
                (mov_charge z addr icnt extra).
Proof. exact mov_mem_store_proof. Qed.

Theorem mov_register_indirect_load :
  forall z op op2 s, let w := opw z op op2 in
    cpu_ok s -> bus_bytes_ok s -> Z.land w 0x80 = 0 -> 0 <= nib w 3 < 8 -> field_ok z (nib w 4) ->
    run_tag (TMovErn z) op op2 0 s =
    then_charge (option_map (fun v => with_ccr (mov_ccr z v (ccr s)) (set_reg z s (nib w 4) v)) (mem_read z s (ea_addr z s (EInd (nib w 3)))))
                (mov_charge z (ea_addr z s (EInd (nib w 3))) (icnt1 z) 0).
Proof. exact mov_ern_load_proof. Qed.

Theorem mov_register_indirect_store :
  forall z op op2 s, let w := opw z op op2 in
    cpu_ok s -> Z.land w 0x80 <> 0 -> field_ok z (nib w 4) ->
    run_tag (TMovErn z) op op2 0 s =
    then_charge (option_map (fun s2 => with_ccr (mov_ccr z (reg z s (nib w 4)) (ccr s)) s2)
                            (mem_write z s (ea_addr z s (EInd (Z.land (nib w 3) 7))) (reg z s (nib w 4))))
                (mov_charge z (ea_addr z s (EInd (Z.land (nib w 3) 7))) (icnt1 z) 0).
Proof. exact mov_ern_store_proof. Qed.

Theorem mov_absolute8_load :
  forall op s, cpu_ok s -> bus_bytes_ok s -> Z.land op 0xf000 = 0x2000 -> 0 <= lo8 op < 256 -> 0 <= nib op 2 < 16 ->
    run_tag TMovAbs8 op 0 0 s =
    then_charge (option_map (fun v => with_ccr (mov_ccr SB v (ccr s)) (set_reg SB s (nib op 2) v)) (mem_read SB s (abs8 (lo8 op))))
                (mov_charge SB (abs8 (lo8 op)) 1 0).
Proof. exact mov_abs8_load_proof. Qed.

Theorem mov_absolute8_store :
  forall op s, cpu_ok s -> Z.land op 0xf000 <> 0x2000 -> 0 <= lo8 op < 256 -> 0 <= nib op 2 < 16 ->
    run_tag TMovAbs8 op 0 0 s =
    then_charge (option_map (fun s2 => with_ccr (mov_ccr SB (reg SB s (nib op 2)) (ccr s)) s2) (mem_write SB s (abs8 (lo8 op)) (reg SB s (nib op 2))))
                (mov_charge SB (abs8 (lo8 op)) 1 0).
Proof. exact mov_abs8_store_proof. Qed.

(* POP and @ERs+: the value at the old address, the full 32-bit register advanced by the operand size *)
Theorem mov_post_increment_load :
  forall z op0 op2 s, let op := opw z op0 op2 in
    cpu_ok s -> bus_bytes_ok s -> Z.land op 0x80 = 0 -> 0 <= nib op 3 < 8 -> field_ok z (nib op 4) ->
    run_tag (TMovIncDec z) op0 op2 0 s =
    then_charge (option_map (fun v => with_ccr (mov_ccr z v (ccr s)) (set_reg z (ea_update z s (EPostInc (nib op 3))) (nib op 4) v))
                            (mem_read z s (ea_addr z s (EPostInc (nib op 3)))))
                (incdec_charge z (ea_addr z s (EPostInc (nib op 3)))).
Proof. exact mov_postinc_proof. Qed.

(* PUSH and @-ERd: the register decremented by the operand size, the value stored at the new address *)
Theorem mov_pre_decrement_store :
  forall z op0 op2 s, let op := opw z op0 op2 in
    cpu_ok s -> Z.land op 0x80 <> 0 -> field_ok z (nib op 4) ->
    let r := Z.land (nib op 3) 7 in
    run_tag (TMovIncDec z) op0 op2 0 s =
    then_charge (option_map (fun s2 => with_ccr (mov_ccr z (reg z s (nib op 4)) (ccr s)) s2)
                            (mem_write z (ea_update z s (EPreDec r)) (ea_addr z s (EPreDec r)) (reg z s (nib op 4))))
                (incdec_charge z (ea_addr z s (EPreDec r))).
Proof. exact mov_predec_proof. Qed.

(* ---- from the instruction word in memory to the reference semantics, in one statement ----
   s is ANY machine state whose PC is even and whose instruction word w can be fetched; w1..w4 are whatever follows it.
   If the operation-code map decodes w as the two-byte instruction i, then one step of the model (fetch, dispatch, handler,
   charge of one instruction-fetch cycle at the instruction's address) ends in exactly the state the reference semantics
   sem_ref assigns (plus the bookkeeping field operating_pc). *)
Theorem step_mov_register :
  forall s w w1 w2 w3 w4 z rs rd n,
    cpu_ok s -> bus_bytes_ok s -> fault s = false -> pc s mod 2 = 0 -> 0 <= pc s -> pc s + 2 < 4294967296 ->
    mem_read SW s (pc s) = Some w ->
    decode_ref w w1 w2 w3 w4 = Some (IMovRR z rs rd, 2) ->
    cs KI 1 (post_fetch s) = Ok n (post_fetch s) ->
    exists s', sem_ref (IMovRR z rs rd) 2 s = Some s' /\ step s = Ok n (set_opc (pc s) s').
Proof. exact step_mov_rr_proof. Qed.

(* MOV.B #xx:8,Rd *)
Theorem step_mov_immediate_byte :
  forall s w w1 w2 w3 w4 imm rd n,
    cpu_ok s -> bus_bytes_ok s -> fault s = false -> pc s mod 2 = 0 -> 0 <= pc s -> pc s + 2 < 4294967296 ->
    mem_read SW s (pc s) = Some w ->
    decode_ref w w1 w2 w3 w4 = Some (IMovImm SB imm rd, 2) ->
    cs KI 1 (post_fetch s) = Ok n (post_fetch s) ->
    exists s', sem_ref (IMovImm SB imm rd) 2 s = Some s' /\ step s = Ok n (set_opc (pc s) s').
Proof. exact step_mov_imm_b_proof. Qed.

(* MOV.B/W @ERs,Rd: from the instruction word in memory to sem_ref *)
Theorem step_mov_load_register_indirect :
  forall s w w1 w2 w3 w4 z r rd n s',
    cpu_ok s -> bus_bytes_ok s -> fault s = false -> pc s mod 2 = 0 -> 0 <= pc s -> pc s + 2 < 4294967296 ->
    mem_read SW s (pc s) = Some w ->
    decode_ref w w1 w2 w3 w4 = Some (IMovLoad z (EInd r) rd, 2) ->
    sem_ref (IMovLoad z (EInd r) rd) 2 s = Some s' ->
    mov_charge z (ea_addr z s (EInd r)) 1 0 (set_opc (pc s) s') = Ok n (set_opc (pc s) s') ->
    step s = Ok n (set_opc (pc s) s').
Proof. exact step_mov_load_ern_proof. Qed.

(* MOV.B/W Rs,@ERd *)
Theorem step_mov_store_register_indirect :
  forall s w w1 w2 w3 w4 z rs r n s',
    cpu_ok s -> bus_bytes_ok s -> fault s = false -> pc s mod 2 = 0 -> 0 <= pc s -> pc s + 2 < 4294967296 ->
    mem_read SW s (pc s) = Some w ->
    decode_ref w w1 w2 w3 w4 = Some (IMovStore z rs (EInd r), 2) ->
    sem_ref (IMovStore z rs (EInd r)) 2 s = Some s' ->
    mov_charge z (ea_addr z s (EInd r)) 1 0 (set_opc (pc s) s') = Ok n (set_opc (pc s) s') ->
    step s = Ok n (set_opc (pc s) s').
Proof. exact step_mov_store_ern_proof. Qed.

(* MOV.B @aa:8,Rd *)
Theorem step_mov_load_absolute8 :
  forall s w w1 w2 w3 w4 a rd n s',
    cpu_ok s -> bus_bytes_ok s -> fault s = false -> pc s mod 2 = 0 -> 0 <= pc s -> pc s + 2 < 4294967296 ->
    mem_read SW s (pc s) = Some w ->
    decode_ref w w1 w2 w3 w4 = Some (IMovLoad SB (EAbs a) rd, 2) ->
    sem_ref (IMovLoad SB (EAbs a) rd) 2 s = Some s' ->
    mov_charge SB a 1 0 (set_opc (pc s) s') = Ok n (set_opc (pc s) s') ->
    step s = Ok n (set_opc (pc s) s').
Proof. exact step_mov_load_abs8_proof. Qed.

(* MOV.B Rs,@aa:8 *)
Theorem step_mov_store_absolute8 :
  forall s w w1 w2 w3 w4 a rs n s',
    cpu_ok s -> bus_bytes_ok s -> fault s = false -> pc s mod 2 = 0 -> 0 <= pc s -> pc s + 2 < 4294967296 ->
    mem_read SW s (pc s) = Some w ->
    decode_ref w w1 w2 w3 w4 = Some (IMovStore SB rs (EAbs a), 2) ->
    sem_ref (IMovStore SB rs (EAbs a)) 2 s = Some s' ->
    mov_charge SB a 1 0 (set_opc (pc s) s') = Ok n (set_opc (pc s) s') ->
    step s = Ok n (set_opc (pc s) s').
Proof. exact step_mov_store_abs8_proof. Qed.

(* POP / MOV.B/W @ERs+,Rd *)
Theorem step_pop :
  forall s w w1 w2 w3 w4 z r rd n s',
    cpu_ok s -> bus_bytes_ok s -> fault s = false -> pc s mod 2 = 0 -> 0 <= pc s -> pc s + 2 < 4294967296 ->
    mem_read SW s (pc s) = Some w ->
    decode_ref w w1 w2 w3 w4 = Some (IMovLoad z (EPostInc r) rd, 2) ->
    sem_ref (IMovLoad z (EPostInc r) rd) 2 s = Some s' ->
    incdec_charge z (ea_addr z s (EPostInc r)) (set_opc (pc s) s') = Ok n (set_opc (pc s) s') ->
    step s = Ok n (set_opc (pc s) s').
Proof. exact step_mov_postinc_proof. Qed.

(* PUSH / MOV.B/W Rs,@-ERd *)
Theorem step_push :
  forall s w w1 w2 w3 w4 z rs r n s',
    cpu_ok s -> bus_bytes_ok s -> fault s = false -> pc s mod 2 = 0 -> 0 <= pc s -> pc s + 2 < 4294967296 ->
    mem_read SW s (pc s) = Some w ->
    decode_ref w w1 w2 w3 w4 = Some (IMovStore z rs (EPreDec r), 2) ->
    sem_ref (IMovStore z rs (EPreDec r)) 2 s = Some s' ->
    incdec_charge z (ea_addr z s (EPreDec r)) (set_opc (pc s) s') = Ok n (set_opc (pc s) s') ->
    step s = Ok n (set_opc (pc s) s').
Proof. exact step_mov_predec_proof. Qed.

(* MOV.W #xx:16,Rd - both instruction words in memory *)
Theorem step_mov_immediate_word :
  forall s w d w2 w3 w4 imm rd n,
    cpu_ok s -> bus_bytes_ok s -> fault s = false -> pc s mod 2 = 0 -> 0 <= pc s -> pc s + 4 < 4294967296 ->
    mem_read SW s (pc s) = Some w -> mem_read SW s (pc s + 2) = Some d ->
    decode_ref w d w2 w3 w4 = Some (IMovImm SW imm rd, 4) ->
    cs KI 2 (post_fetch2 s) = Ok n (post_fetch2 s) ->
    exists s', sem_ref (IMovImm SW imm rd) 4 s = Some s' /\ step s = Ok n (set_opc (pc s + 2) s').
Proof. exact step_mov_imm_w_proof. Qed.

(* MOV.L @ERs,ERd (prefix 0100): both instruction words in memory, any state *)
Theorem step_mov_long_load :
  forall s w1 w2 w3 w4 r rd n s',
    cpu_ok s -> bus_bytes_ok s -> fault s = false -> pc s mod 2 = 0 -> 0 <= pc s -> pc s + 4 < 4294967296 ->
    mem_read SW s (pc s) = Some 0x0100 -> mem_read SW s (pc s + 2) = Some w1 ->
    decode_ref 0x0100 w1 w2 w3 w4 = Some (IMovLoad SL (EInd r) rd, 4) ->
    sem_ref (IMovLoad SL (EInd r) rd) 4 s = Some s' ->
    mov_charge SL (ea_addr SL s (EInd r)) 2 0 (set_opc (pc s + 2) s') = Ok n (set_opc (pc s + 2) s') ->
    step s = Ok n (set_opc (pc s + 2) s').
Proof. exact step_movl_load_ern_proof. Qed.

(* MOV.L ERs,@ERd *)
Theorem step_mov_long_store :
  forall s w1 w2 w3 w4 rs r n s',
    cpu_ok s -> bus_bytes_ok s -> fault s = false -> pc s mod 2 = 0 -> 0 <= pc s -> pc s + 4 < 4294967296 ->
    mem_read SW s (pc s) = Some 0x0100 -> mem_read SW s (pc s + 2) = Some w1 ->
    decode_ref 0x0100 w1 w2 w3 w4 = Some (IMovStore SL rs (EInd r), 4) ->
    sem_ref (IMovStore SL rs (EInd r)) 4 s = Some s' ->
    mov_charge SL (ea_addr SL s (EInd r)) 2 0 (set_opc (pc s + 2) s') = Ok n (set_opc (pc s + 2) s') ->
    step s = Ok n (set_opc (pc s + 2) s').
Proof. exact step_movl_store_ern_proof. Qed.

(* POP.L ERd = MOV.L @ER7+,ERd (any address register) *)
Theorem step_pop_long :
  forall s w1 w2 w3 w4 r rd n s',
    cpu_ok s -> bus_bytes_ok s -> fault s = false -> pc s mod 2 = 0 -> 0 <= pc s -> pc s + 4 < 4294967296 ->
    mem_read SW s (pc s) = Some 0x0100 -> mem_read SW s (pc s + 2) = Some w1 ->
    decode_ref 0x0100 w1 w2 w3 w4 = Some (IMovLoad SL (EPostInc r) rd, 4) ->
    sem_ref (IMovLoad SL (EPostInc r) rd) 4 s = Some s' ->
    incdec_charge SL (ea_addr SL s (EPostInc r)) (set_opc (pc s + 2) s') = Ok n (set_opc (pc s + 2) s') ->
    step s = Ok n (set_opc (pc s + 2) s').
Proof. exact step_pop_l_proof. Qed.

(* PUSH.L ERs = MOV.L ERs,@-ER7 (any address register) *)
Theorem step_push_long :
  forall s w1 w2 w3 w4 rs r n s',
    cpu_ok s -> bus_bytes_ok s -> fault s = false -> pc s mod 2 = 0 -> 0 <= pc s -> pc s + 4 < 4294967296 ->
    mem_read SW s (pc s) = Some 0x0100 -> mem_read SW s (pc s + 2) = Some w1 ->
    decode_ref 0x0100 w1 w2 w3 w4 = Some (IMovStore SL rs (EPreDec r), 4) ->
    sem_ref (IMovStore SL rs (EPreDec r)) 4 s = Some s' ->
    incdec_charge SL (ea_addr SL s (EPreDec r)) (set_opc (pc s + 2) s') = Ok n (set_opc (pc s + 2) s') ->
    step s = Ok n (set_opc (pc s + 2) s').
Proof. exact step_push_l_proof. Qed.

(* ---- forms with extension words: the handler (fetch of the extension word(s), effective address, access) = the reference
   transformer followed by the charge, for every state in which the extension words are the next words to be fetched ---- *)
Theorem mov_displacement16_load :
  forall z op op2 d s,
    let w := opw z op op2 in let s1 := post_fetch s in
    cpu_ok s -> bus_bytes_ok s -> pc s mod 2 = 0 -> 0 <= pc s -> pc s + 2 < 4294967296 -> mem_read SW s (pc s) = Some d ->
    Z.land w 0x80 = 0 -> 0 <= nib w 3 < 8 -> field_ok z (nib w 4) ->
    let a := ea_addr z s (EDisp (nib w 3) (sx 16 d)) in
    run_tag (TMovDisp16 z) op op2 0 s =
    then_charge (option_map (fun v => with_ccr (mov_ccr z v (ccr s)) (set_reg z s1 (nib w 4) v)) (mem_read z s a)) (mov_charge z a (icnt2 z) 0).
Proof. exact mov_disp16_load_proof. Qed.

Theorem mov_displacement16_store :
  forall z op op2 d s,
    let w := opw z op op2 in let s1 := post_fetch s in
    cpu_ok s -> bus_bytes_ok s -> pc s mod 2 = 0 -> 0 <= pc s -> pc s + 2 < 4294967296 -> mem_read SW s (pc s) = Some d ->
    Z.land w 0x80 <> 0 -> field_ok z (nib w 4) ->
    let a := ea_addr z s (EDisp (Z.land (nib w 3) 7) (sx 16 d)) in
    run_tag (TMovDisp16 z) op op2 0 s =
    then_charge (option_map (fun s2 => with_ccr (mov_ccr z (reg z s (nib w 4)) (ccr s)) s2) (mem_write z s1 a (reg z s (nib w 4)))) (mov_charge z a (icnt2 z) 0).
Proof. exact mov_disp16_store_proof. Qed.

Theorem mov_absolute16_load :
  forall z op op2 d s,
    let w := opw z op op2 in let s1 := post_fetch s in
    cpu_ok s -> bus_bytes_ok s -> pc s mod 2 = 0 -> 0 <= pc s -> pc s + 2 < 4294967296 -> mem_read SW s (pc s) = Some d ->
    Z.land w 0xfff0 = (match z with SB => 0x6a00 | _ => 0x6b00 end) -> field_ok z (nib w 4) ->
    run_tag (TMovAbs16 z) op op2 0 s =
    then_charge (option_map (fun v => with_ccr (mov_ccr z v (ccr s)) (set_reg z s1 (nib w 4) v)) (mem_read z s (abs16 d))) (mov_charge z (abs16 d) (icnt2 z) 0).
Proof. exact mov_abs16_load_proof. Qed.

Theorem mov_absolute16_store :
  forall z op op2 d s,
    let w := opw z op op2 in let s1 := post_fetch s in
    cpu_ok s -> bus_bytes_ok s -> pc s mod 2 = 0 -> 0 <= pc s -> pc s + 2 < 4294967296 -> mem_read SW s (pc s) = Some d ->
    Z.land w 0xfff0 <> (match z with SB => 0x6a00 | _ => 0x6b00 end) -> field_ok z (nib w 4) ->
    run_tag (TMovAbs16 z) op op2 0 s =
    then_charge (option_map (fun s2 => with_ccr (mov_ccr z (reg z s (nib w 4)) (ccr s)) s2) (mem_write z s1 (abs16 d) (reg z s (nib w 4)))) (mov_charge z (abs16 d) (icnt2 z) 0).
Proof. exact mov_abs16_store_proof. Qed.

Theorem mov_absolute24_load :
  forall z op op2 h l s,
    let w := opw z op op2 in let s1 := post_fetch_2w s in
    cpu_ok s -> bus_bytes_ok s -> pc s mod 2 = 0 -> 0 <= pc s -> pc s + 4 < 4294967296 ->
    mem_read SW s (pc s) = Some h -> mem_read SW s (pc s + 2) = Some l ->
    Z.land w 0xfff0 = (match z with SB => 0x6a20 | _ => 0x6b20 end) -> field_ok z (nib w 4) ->
    let a := h * 65536 + l in
    run_tag (TMovAbs24 z) op op2 0 s =
    then_charge (option_map (fun v => with_ccr (mov_ccr z v (ccr s)) (set_reg z s1 (nib w 4) v)) (mem_read z s a)) (mov_charge z a (icnt3 z) 0).
Proof. exact mov_abs24_load_proof. Qed.

Theorem mov_absolute24_store :
  forall z op op2 h l s,
    let w := opw z op op2 in let s1 := post_fetch_2w s in
    cpu_ok s -> bus_bytes_ok s -> pc s mod 2 = 0 -> 0 <= pc s -> pc s + 4 < 4294967296 ->
    mem_read SW s (pc s) = Some h -> mem_read SW s (pc s + 2) = Some l ->
    Z.land w 0xfff0 <> (match z with SB => 0x6a20 | _ => 0x6b20 end) -> field_ok z (nib w 4) ->
    let a := h * 65536 + l in
    run_tag (TMovAbs24 z) op op2 0 s =
    then_charge (option_map (fun s2 => with_ccr (mov_ccr z (reg z s (nib w 4)) (ccr s)) s2) (mem_write z s1 a (reg z s (nib w 4)))) (mov_charge z a (icnt3 z) 0).
Proof. exact mov_abs24_store_proof. Qed.

Theorem mov_displacement24_load :
  forall z op op2 h l s,
    z <> SL -> let s1 := post_fetch_2w s in
    cpu_ok s -> bus_bytes_ok s -> pc s mod 2 = 0 -> 0 <= pc s -> pc s + 4 < 4294967296 ->
    mem_read SW s (pc s) = Some h -> mem_read SW s (pc s + 2) = Some l -> 0 <= h < 256 ->
    Z.land op2 0xfff0 = (match z with SB => 0x6a20 | _ => 0x6b20 end) -> 0 <= nib op 3 < 8 -> field_ok z (nib op2 4) ->
    let a := ea_addr z s (EDisp (nib op 3) (sx 24 (h * 65536 + l))) in
    run_tag (TMovDisp24 z) op op2 0 s =
    then_charge (option_map (fun v => with_ccr (mov_ccr z v (ccr s)) (set_reg z s1 (nib op2 4) v)) (mem_read z s a)) (mov_charge z a 4 0).
Proof. exact mov_disp24_load_proof. Qed.

Theorem mov_displacement24_store :
  forall z op op2 h l s,
    z <> SL -> let s1 := post_fetch_2w s in
    cpu_ok s -> bus_bytes_ok s -> pc s mod 2 = 0 -> 0 <= pc s -> pc s + 4 < 4294967296 ->
    mem_read SW s (pc s) = Some h -> mem_read SW s (pc s + 2) = Some l -> 0 <= h < 256 ->
    Z.land op2 0xfff0 <> (match z with SB => 0x6a20 | _ => 0x6b20 end) -> field_ok z (nib op2 4) ->
    let a := ea_addr z s (EDisp (Z.land (nib op 3) 7) (sx 24 (h * 65536 + l))) in
    run_tag (TMovDisp24 z) op op2 0 s =
    then_charge (option_map (fun s2 => with_ccr (mov_ccr z (reg z s (nib op2 4)) (ccr s)) s2) (mem_write z s1 a (reg z s (nib op2 4)))) (mov_charge z a 4 0).
Proof. exact mov_disp24_store_proof. Qed.

(* MOV.L #xx:32,ERd - all three instruction words in memory, any state *)
Theorem step_mov_immediate_long :
  forall s w h l w3 w4 imm rd n,
    cpu_ok s -> bus_bytes_ok s -> fault s = false -> pc s mod 2 = 0 -> 0 <= pc s -> pc s + 6 < 4294967296 ->
    mem_read SW s (pc s) = Some w -> mem_read SW s (pc s + 2) = Some h -> mem_read SW s (pc s + 4) = Some l ->
    decode_ref w h l w3 w4 = Some (IMovImm SL imm rd, 6) ->
    cs KI 3 (post_fetch3 s) = Ok n (post_fetch3 s) ->
    exists s', sem_ref (IMovImm SL imm rd) 6 s = Some s' /\ step s = Ok n (set_opc (pc s + 4) s').
Proof. exact step_mov_imm_l_proof. Qed.

(* ---- displacement and absolute forms, from the instruction words in memory to the reference semantics ---- *)
(* MOV.B/W: the first word selects the form, the following one (d:16, aa:16) or two (aa:24) words are the operand;
   MOV.L: behind the 0100 prefix word *)
Theorem step_mov_load_displacement16 :
  forall s w d w2 w3 w4 z r disp rd n s',
  cpu_ok s -> bus_bytes_ok s -> fault s = false -> pc s mod 2 = 0 -> 0 <= pc s -> pc s + 4 < 4294967296 ->
    mem_read SW s (pc s) = Some w -> mem_read SW s (pc s + 2) = Some d ->
    decode_ref w d w2 w3 w4 = Some (IMovLoad z (EDisp r disp) rd, 4) ->
    sem_ref (IMovLoad z (EDisp r disp) rd) 4 s = Some s' ->
    mov_charge z (ea_addr z s (EDisp r disp)) 2 0 (set_opc (pc s + 2) s') = Ok n (set_opc (pc s + 2) s') ->
    step s = Ok n (set_opc (pc s + 2) s').
Proof. exact step_mov_load_disp16_proof. Qed.

Theorem step_mov_store_displacement16 :
  forall s w d w2 w3 w4 z rs r disp n s',
  cpu_ok s -> bus_bytes_ok s -> fault s = false -> pc s mod 2 = 0 -> 0 <= pc s -> pc s + 4 < 4294967296 ->
    mem_read SW s (pc s) = Some w -> mem_read SW s (pc s + 2) = Some d ->
    decode_ref w d w2 w3 w4 = Some (IMovStore z rs (EDisp r disp), 4) ->
    sem_ref (IMovStore z rs (EDisp r disp)) 4 s = Some s' ->
    mov_charge z (ea_addr z s (EDisp r disp)) 2 0 (set_opc (pc s + 2) s') = Ok n (set_opc (pc s + 2) s') ->
    step s = Ok n (set_opc (pc s + 2) s').
Proof. exact step_mov_store_disp16_proof. Qed.

Theorem step_mov_load_absolute16 :
  forall s w d w2 w3 w4 z a rd n s',
  cpu_ok s -> bus_bytes_ok s -> fault s = false -> pc s mod 2 = 0 -> 0 <= pc s -> pc s + 4 < 4294967296 ->
    mem_read SW s (pc s) = Some w -> mem_read SW s (pc s + 2) = Some d ->
    decode_ref w d w2 w3 w4 = Some (IMovLoad z (EAbs a) rd, 4) ->
    sem_ref (IMovLoad z (EAbs a) rd) 4 s = Some s' ->
    mov_charge z a 2 0 (set_opc (pc s + 2) s') = Ok n (set_opc (pc s + 2) s') ->
    step s = Ok n (set_opc (pc s + 2) s').
Proof. exact step_mov_load_abs16_proof. Qed.

Theorem step_mov_store_absolute16 :
  forall s w d w2 w3 w4 z rs a n s',
  cpu_ok s -> bus_bytes_ok s -> fault s = false -> pc s mod 2 = 0 -> 0 <= pc s -> pc s + 4 < 4294967296 ->
    mem_read SW s (pc s) = Some w -> mem_read SW s (pc s + 2) = Some d ->
    decode_ref w d w2 w3 w4 = Some (IMovStore z rs (EAbs a), 4) ->
    sem_ref (IMovStore z rs (EAbs a)) 4 s = Some s' ->
    mov_charge z a 2 0 (set_opc (pc s + 2) s') = Ok n (set_opc (pc s + 2) s') ->
    step s = Ok n (set_opc (pc s + 2) s').
Proof. exact step_mov_store_abs16_proof. Qed.

Theorem step_mov_load_absolute24 :
  forall s w h l w3 w4 z a rd n s',
  z <> SL ->
    cpu_ok s -> bus_bytes_ok s -> fault s = false -> pc s mod 2 = 0 -> 0 <= pc s -> pc s + 6 < 4294967296 ->
    mem_read SW s (pc s) = Some w -> mem_read SW s (pc s + 2) = Some h -> mem_read SW s (pc s + 4) = Some l ->
    decode_ref w h l w3 w4 = Some (IMovLoad z (EAbs a) rd, 6) ->
    sem_ref (IMovLoad z (EAbs a) rd) 6 s = Some s' ->
    mov_charge z a 3 0 (set_opc (pc s + 4) s') = Ok n (set_opc (pc s + 4) s') ->
    step s = Ok n (set_opc (pc s + 4) s').
Proof. exact step_mov_load_abs24_proof. Qed.

Theorem step_mov_store_absolute24 :
  forall s w h l w3 w4 z rs a n s',
  z <> SL ->
    cpu_ok s -> bus_bytes_ok s -> fault s = false -> pc s mod 2 = 0 -> 0 <= pc s -> pc s + 6 < 4294967296 ->
    mem_read SW s (pc s) = Some w -> mem_read SW s (pc s + 2) = Some h -> mem_read SW s (pc s + 4) = Some l ->
    decode_ref w h l w3 w4 = Some (IMovStore z rs (EAbs a), 6) ->
    sem_ref (IMovStore z rs (EAbs a)) 6 s = Some s' ->
    mov_charge z a 3 0 (set_opc (pc s + 4) s') = Ok n (set_opc (pc s + 4) s') ->
    step s = Ok n (set_opc (pc s + 4) s').
Proof. exact step_mov_store_abs24_proof. Qed.

Theorem step_mov_long_load_displacement16 :
  forall s w1 d w3 w4 r disp rd n s',
  cpu_ok s -> bus_bytes_ok s -> fault s = false -> pc s mod 2 = 0 -> 0 <= pc s -> pc s + 6 < 4294967296 ->
    mem_read SW s (pc s) = Some 0x0100 -> mem_read SW s (pc s + 2) = Some w1 -> mem_read SW s (pc s + 4) = Some d ->
    decode_ref 0x0100 w1 d w3 w4 = Some (IMovLoad SL (EDisp r disp) rd, 6) ->
    sem_ref (IMovLoad SL (EDisp r disp) rd) 6 s = Some s' ->
    mov_charge SL (ea_addr SL s (EDisp r disp)) 3 0 (set_opc (pc s + 4) s') = Ok n (set_opc (pc s + 4) s') ->
    step s = Ok n (set_opc (pc s + 4) s').
Proof. exact step_movl_load_disp16_proof. Qed.

Theorem step_mov_long_store_displacement16 :
  forall s w1 d w3 w4 rs r disp n s',
  cpu_ok s -> bus_bytes_ok s -> fault s = false -> pc s mod 2 = 0 -> 0 <= pc s -> pc s + 6 < 4294967296 ->
    mem_read SW s (pc s) = Some 0x0100 -> mem_read SW s (pc s + 2) = Some w1 -> mem_read SW s (pc s + 4) = Some d ->
    decode_ref 0x0100 w1 d w3 w4 = Some (IMovStore SL rs (EDisp r disp), 6) ->
    sem_ref (IMovStore SL rs (EDisp r disp)) 6 s = Some s' ->
    mov_charge SL (ea_addr SL s (EDisp r disp)) 3 0 (set_opc (pc s + 4) s') = Ok n (set_opc (pc s + 4) s') ->
    step s = Ok n (set_opc (pc s + 4) s').
Proof. exact step_movl_store_disp16_proof. Qed.

Theorem step_mov_long_load_absolute16 :
  forall s w1 d w3 w4 a rd n s',
  cpu_ok s -> bus_bytes_ok s -> fault s = false -> pc s mod 2 = 0 -> 0 <= pc s -> pc s + 6 < 4294967296 ->
    mem_read SW s (pc s) = Some 0x0100 -> mem_read SW s (pc s + 2) = Some w1 -> mem_read SW s (pc s + 4) = Some d ->
    decode_ref 0x0100 w1 d w3 w4 = Some (IMovLoad SL (EAbs a) rd, 6) ->
    sem_ref (IMovLoad SL (EAbs a) rd) 6 s = Some s' ->
    mov_charge SL a 3 0 (set_opc (pc s + 4) s') = Ok n (set_opc (pc s + 4) s') ->
    step s = Ok n (set_opc (pc s + 4) s').
Proof. exact step_movl_load_abs16_proof. Qed.

Theorem step_mov_long_store_absolute16 :
  forall s w1 d w3 w4 rs a n s',
  cpu_ok s -> bus_bytes_ok s -> fault s = false -> pc s mod 2 = 0 -> 0 <= pc s -> pc s + 6 < 4294967296 ->
    mem_read SW s (pc s) = Some 0x0100 -> mem_read SW s (pc s + 2) = Some w1 -> mem_read SW s (pc s + 4) = Some d ->
    decode_ref 0x0100 w1 d w3 w4 = Some (IMovStore SL rs (EAbs a), 6) ->
    sem_ref (IMovStore SL rs (EAbs a)) 6 s = Some s' ->
    mov_charge SL a 3 0 (set_opc (pc s + 4) s') = Ok n (set_opc (pc s + 4) s') ->
    step s = Ok n (set_opc (pc s + 4) s').
Proof. exact step_movl_store_abs16_proof. Qed.

Theorem step_mov_long_load_absolute24 :
  forall s w1 h l w4 a rd n s',
  cpu_ok s -> bus_bytes_ok s -> fault s = false -> pc s mod 2 = 0 -> 0 <= pc s -> pc s + 8 < 4294967296 ->
    mem_read SW s (pc s) = Some 0x0100 -> mem_read SW s (pc s + 2) = Some w1 ->
    mem_read SW s (pc s + 4) = Some h -> mem_read SW s (pc s + 6) = Some l ->
    decode_ref 0x0100 w1 h l w4 = Some (IMovLoad SL (EAbs a) rd, 8) ->
    sem_ref (IMovLoad SL (EAbs a) rd) 8 s = Some s' ->
    mov_charge SL a 4 0 (set_opc (pc s + 6) s') = Ok n (set_opc (pc s + 6) s') ->
    step s = Ok n (set_opc (pc s + 6) s').
Proof. exact step_movl_load_abs24_proof. Qed.

Theorem step_mov_long_store_absolute24 :
  forall s w1 h l w4 rs a n s',
  cpu_ok s -> bus_bytes_ok s -> fault s = false -> pc s mod 2 = 0 -> 0 <= pc s -> pc s + 8 < 4294967296 ->
    mem_read SW s (pc s) = Some 0x0100 -> mem_read SW s (pc s + 2) = Some w1 ->
    mem_read SW s (pc s + 4) = Some h -> mem_read SW s (pc s + 6) = Some l ->
    decode_ref 0x0100 w1 h l w4 = Some (IMovStore SL rs (EAbs a), 8) ->
    sem_ref (IMovStore SL rs (EAbs a)) 8 s = Some s' ->
    mov_charge SL a 4 0 (set_opc (pc s + 6) s') = Ok n (set_opc (pc s + 6) s') ->
    step s = Ok n (set_opc (pc s + 6) s').
Proof. exact step_movl_store_abs24_proof. Qed.

(* the 24-bit displacement forms: MOV.B/W behind the 78 prefix (eight bytes), MOV.L behind 0100 78r0 (ten bytes) *)
Theorem step_mov_load_displacement24 :
  forall s w0 w1 h l w4 z r disp rd n s',
  z <> SL ->
    cpu_ok s -> bus_bytes_ok s -> fault s = false -> pc s mod 2 = 0 -> 0 <= pc s -> pc s + 8 < 4294967296 ->
    mem_read SW s (pc s) = Some w0 -> mem_read SW s (pc s + 2) = Some w1 ->
    mem_read SW s (pc s + 4) = Some h -> mem_read SW s (pc s + 6) = Some l ->
    decode_ref w0 w1 h l w4 = Some (IMovLoad z (EDisp r disp) rd, 8) ->
    sem_ref (IMovLoad z (EDisp r disp) rd) 8 s = Some s' ->
    mov_charge z (ea_addr z s (EDisp r disp)) 4 0 (set_opc (pc s + 6) s') = Ok n (set_opc (pc s + 6) s') ->
    step s = Ok n (set_opc (pc s + 6) s').
Proof. exact step_mov_load_disp24_proof. Qed.

Theorem step_mov_store_displacement24 :
  forall s w0 w1 h l w4 z rs r disp n s',
  z <> SL ->
    cpu_ok s -> bus_bytes_ok s -> fault s = false -> pc s mod 2 = 0 -> 0 <= pc s -> pc s + 8 < 4294967296 ->
    mem_read SW s (pc s) = Some w0 -> mem_read SW s (pc s + 2) = Some w1 ->
    mem_read SW s (pc s + 4) = Some h -> mem_read SW s (pc s + 6) = Some l ->
    decode_ref w0 w1 h l w4 = Some (IMovStore z rs (EDisp r disp), 8) ->
    sem_ref (IMovStore z rs (EDisp r disp)) 8 s = Some s' ->
    mov_charge z (ea_addr z s (EDisp r disp)) 4 0 (set_opc (pc s + 6) s') = Ok n (set_opc (pc s + 6) s') ->
    step s = Ok n (set_opc (pc s + 6) s').
Proof. exact step_mov_store_disp24_proof. Qed.

Theorem step_mov_long_load_displacement24 :
  forall s w1 w2 h l r disp rd n s',
  cpu_ok s -> bus_bytes_ok s -> fault s = false -> pc s mod 2 = 0 -> 0 <= pc s -> pc s + 10 < 4294967296 ->
    mem_read SW s (pc s) = Some 0x0100 -> mem_read SW s (pc s + 2) = Some w1 -> mem_read SW s (pc s + 4) = Some w2 ->
    mem_read SW s (pc s + 6) = Some h -> mem_read SW s (pc s + 8) = Some l ->
    decode_ref 0x0100 w1 w2 h l = Some (IMovLoad SL (EDisp r disp) rd, 10) ->
    sem_ref (IMovLoad SL (EDisp r disp) rd) 10 s = Some s' ->
    mov_charge SL (ea_addr SL s (EDisp r disp)) 5 0 (set_opc (pc s + 8) s') = Ok n (set_opc (pc s + 8) s') ->
    step s = Ok n (set_opc (pc s + 8) s').
Proof. exact step_movl_load_disp24_proof. Qed.

Theorem step_mov_long_store_displacement24 :
  forall s w1 w2 h l rs r disp n s',
  cpu_ok s -> bus_bytes_ok s -> fault s = false -> pc s mod 2 = 0 -> 0 <= pc s -> pc s + 10 < 4294967296 ->
    mem_read SW s (pc s) = Some 0x0100 -> mem_read SW s (pc s + 2) = Some w1 -> mem_read SW s (pc s + 4) = Some w2 ->
    mem_read SW s (pc s + 6) = Some h -> mem_read SW s (pc s + 8) = Some l ->
    decode_ref 0x0100 w1 w2 h l = Some (IMovStore SL rs (EDisp r disp), 10) ->
    sem_ref (IMovStore SL rs (EDisp r disp)) 10 s = Some s' ->
    mov_charge SL (ea_addr SL s (EDisp r disp)) 5 0 (set_opc (pc s + 8) s') = Ok n (set_opc (pc s + 8) s') ->
    step s = Ok n (set_opc (pc s + 8) s').
Proof. exact step_movl_store_disp24_proof. Qed.

Print Assumptions mov_register_refines.
Print Assumptions mov_flags_rule.
Print Assumptions byte_lane_read.
Print Assumptions byte_lane_write.
Print Assumptions word_lane_read.
Print Assumptions word_lane_write.
Print Assumptions mov_word_big_endian.
Print Assumptions mov_load_at_address.
Print Assumptions mov_store_at_address.
Print Assumptions mov_register_indirect_load.
Print Assumptions mov_register_indirect_store.
Print Assumptions mov_absolute8_load.
Print Assumptions mov_absolute8_store.
Print Assumptions mov_post_increment_load.
Print Assumptions mov_pre_decrement_store.
Print Assumptions step_mov_register.
Print Assumptions step_mov_immediate_byte.
Print Assumptions step_mov_load_register_indirect.
Print Assumptions step_mov_store_register_indirect.
Print Assumptions step_mov_load_absolute8.
Print Assumptions step_mov_store_absolute8.
Print Assumptions step_pop.
Print Assumptions step_push.
Print Assumptions step_mov_immediate_word.
Print Assumptions step_mov_long_load.
Print Assumptions step_mov_long_store.
Print Assumptions step_pop_long.
Print Assumptions step_push_long.
Print Assumptions mov_displacement16_load.
Print Assumptions mov_displacement16_store.
Print Assumptions mov_absolute16_load.
Print Assumptions mov_absolute16_store.
Print Assumptions mov_absolute24_load.
Print Assumptions mov_absolute24_store.
Print Assumptions mov_displacement24_load.
Print Assumptions mov_displacement24_store.
Print Assumptions step_mov_immediate_long.
Print Assumptions step_mov_load_displacement16.
Print Assumptions step_mov_store_displacement16.
Print Assumptions step_mov_load_absolute16.
Print Assumptions step_mov_store_absolute16.
Print Assumptions step_mov_load_absolute24.
Print Assumptions step_mov_store_absolute24.
Print Assumptions step_mov_long_load_displacement16.
Print Assumptions step_mov_long_store_displacement16.
Print Assumptions step_mov_long_load_absolute16.
Print Assumptions step_mov_long_store_absolute16.
Print Assumptions step_mov_long_load_absolute24.
Print Assumptions step_mov_long_store_absolute24.
Print Assumptions step_mov_load_displacement24.
Print Assumptions step_mov_store_displacement24.
Print Assumptions step_mov_long_load_displacement24.
Print Assumptions step_mov_long_store_displacement24.
