(* C06 — exception entry and RTE save and restore the interrupted context exactly. *)
From Coq Require Import Bool ZArith List.
From K Require Import Lib.Types Model.Machine Model.Bus Model.Cost Model.Addressing Model.Alu Model.Exec Spec.MemMap Spec.ISA Proofs.RegProofs Proofs.StackProofs Proofs.MemProofs Proofs.CtlProofs.
From K Require Import Proofs.StepProofs Proofs.StepRefines Proofs.StepRefinesCtl.
Open Scope Z_scope.

(* On the reference (enter_ref = TRAPA / interrupt acceptance through vector v, sem_ref IRte = RTE): entry
   pushes CCR:8 | return address:24 at SP-4, sets I, loads PC from the low 24 bits of the vector; RTE then
   restores PC, CCR, SP, every register and leaves all memory outside the frame untouched - for every CCR
   value, every vector content and every 32-bit stack pointer whose frame lies in plain memory. *)
Theorem entry_rte_inverse :
  forall s v ret d,
    plain4 (frame_of s) -> word32 (reg32 s 7) -> 0 <= ccr s < 256 -> 0 <= ret < A24 ->
    (forall s1, (forall x, x <> frame_of s -> x <> frame_of s + 1 -> x <> frame_of s + 2 -> x <> frame_of s + 3 ->
                    bus_read (cbus s1) x = bus_read (cbus s) x) -> mem_read SL s1 (4 * v) = Some d) ->
    exists s1 s2,
      enter_ref s v ret = Some s1 /\ sem_ref IRte 2 s1 = Some s2 /\
      pc s1 = d mod A24 /\ flag (ccr s1) fI = true /\
      reg32 s1 7 = (reg32 s 7 - 4) mod 4294967296 /\
      pc s2 = ret /\ ccr s2 = ccr s /\ er s2 = er s /\
      (forall x, x <> frame_of s -> x <> frame_of s + 1 -> x <> frame_of s + 2 -> x <> frame_of s + 3 ->
         bus_read (cbus s2) x = bus_read (cbus s) x).
Proof. exact entry_rte_inverse_proof. Qed.

Example c06_example : plain 0xffc000 = true /\ plain 0xffc003 = true.
Proof. split; vm_compute; reflexivity. Qed.

(* the model's TRAPA #1-3 handler is the reference's exception entry through vector 8 + n (followed by its charge), and
   its RTE handler is the reference's RTE, for every state (s: after the instruction word has been fetched) *)
Theorem trapa_refines :
  forall op s,
    regs_ok s -> 0 <= ccr s < 256 -> 0 <= pc s < 16777216 -> 1 <= nib op 3 <= 3 ->
    (forall s1, push32 s (ccr s * A24 + pc s) = Some s1 -> bus_bytes_ok s1) ->
    run_tag TTrapa op 0 0 s =
    then_charge (enter_ref s (8 + nib op 3) (pc s))
                (i <- cs KI 2 ;; j <- csa KJ 2 (0x20 + 4 * nib op 3) ;; k <- csa KK 2 ((reg32 s 7 - 4) mod A24) ;; n <- cs KN 4 ;;
                 ret (u8add (u8add (u8add i j) k) n)).
Proof. exact trapa_refines_proof. Qed.

Theorem rte_refines :
  forall op s, bus_bytes_ok s ->
    run_tag TRte op 0 0 s =
    then_charge (option_map (fun '(v, s1) => with_pc (v mod A24) (with_ccr (v / A24) s1)) (pop32 s))
                (i <- cs KI 2 ;; k <- csa KK 2 (reg32 s 7 mod A24) ;; n <- cs KN 2 ;; ret (u8add (u8add i k) n)).
Proof. exact rte_refines_proof. Qed.

(* ---- from the instruction word in memory to the reference semantics, in one statement ----
   s is ANY machine state with an even PC whose instruction word w can be fetched, w1..w4 whatever follows it; if the
   operation-code map decodes w as the two-byte instruction i and the reference semantics sem_ref gives s', then one
   step of the model (fetch, dispatch, handler) ends in s' (plus the bookkeeping field operating_pc) with the charge
   computed by the handler's charge expression on that final state. *)
Theorem step_rte :
  forall s w w1 w2 w3 w4 n s',
    bus_bytes_ok s -> fault s = false -> pc s mod 2 = 0 -> 0 <= pc s -> pc s + 2 < 4294967296 ->
    mem_read SW s (pc s) = Some w ->
    decode_ref w w1 w2 w3 w4 = Some (IRte, 2) ->
    sem_ref IRte 2 s = Some s' ->
    (i <- cs KI 2 ;; k <- csa KK 2 (reg32 s 7 mod A24) ;; n <- cs KN 2 ;; ret (u8add (u8add i k) n)) (set_opc (pc s) s') = Ok n (set_opc (pc s) s') ->
    step s = Ok n (set_opc (pc s) s').
Proof. exact step_rte_proof. Qed.

Theorem step_trapa :
  forall s w w1 w2 w3 w4 k n s',
    cpu_ok s -> fault s = false -> bus_bytes_ok s -> pc s mod 2 = 0 -> 0 <= pc s -> pc s + 2 < 16777216 ->
    mem_read SW s (pc s) = Some w ->
    decode_ref w w1 w2 w3 w4 = Some (ITrapa k, 2) ->
    (forall s1, push32 (post_fetch s) (ccr s * A24 + (pc s + 2)) = Some s1 -> bus_bytes_ok s1) ->
    sem_ref (ITrapa k) 2 s = Some s' ->
    (i <- cs KI 2 ;; j <- csa KJ 2 (0x20 + 4 * k) ;; kk <- csa KK 2 ((reg32 s 7 - 4) mod A24) ;; n <- cs KN 4 ;;
     ret (u8add (u8add (u8add i j) kk) n)) (set_opc (pc s) s') = Ok n (set_opc (pc s) s') ->
    step s = Ok n (set_opc (pc s) s').
Proof. exact step_trapa_proof. Qed.

Print Assumptions entry_rte_inverse.
Print Assumptions trapa_refines.
Print Assumptions rte_refines.
Print Assumptions step_rte.
Print Assumptions step_trapa.
