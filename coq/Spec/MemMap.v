(* Reference memory map of the emulated H8/3069F address space (property C09). *)
From Coq Require Import Bool ZArith List.
Import ListNotations.
Open Scope bool_scope. Open Scope Z_scope.

Definition within (lo hi a : Z) : bool := (lo <=? a) && (a <=? hi).

Definition accessible (a : Z) : bool :=
  within 0x000000 0x0000ff a    (* vector area *)
  || within 0x400000 0x5fffff a (* DRAM *)
  || within 0xfee000 0xfee0ff a (* I/O registers *)
  || within 0xffbf20 0xffff1f a (* on-chip RAM *)
  || within 0xffff20 0xffffe9 a (* I/O registers *).

(* port direction / data registers: their writes have peripheral semantics (C16) *)
Definition port_register (a : Z) : bool :=
  within 0xfee000 0xfee00a a || within 0xffffd0 0xffffda a.

Definition plain (a : Z) : bool := accessible a && negb (port_register a).

(* ---- abstract memory: a partial map address -> byte, and byte-level access histories ---- *)
Inductive access := AWrite (a v : Z) | ARead (a : Z).
Definition amem := Z -> option Z.
Definition aupd (m : amem) (a v : Z) : amem := fun x => if x =? a then Some v else m x.

Definition astep (m : amem) (x : access) : amem * option Z :=
  match x with
  | AWrite a v => if accessible a then (aupd m a v, Some v) else (m, None)
  | ARead a => (m, if accessible a then m a else None)
  end.

Fixpoint arun (m : amem) (h : list access) : amem * list (option Z) :=
  match h with [] => (m, []) | x :: t => let '(m1, r) := astep m x in let '(m2, rs) := arun m1 t in (m2, r :: rs) end.

(* ---- 16/32-bit accesses: big-endian composition of consecutive bytes ---- *)
Definition be_bytes (sz v : Z) : list Z :=
  if sz =? 1 then [v mod 256]
  else if sz =? 2 then [(v / 256) mod 256; v mod 256]
  else [(v / 16777216) mod 256; (v / 65536) mod 256; (v / 256) mod 256; v mod 256].
Definition be_value (bs : list Z) : Z := fold_left (fun acc b => acc * 256 + b) bs 0.

(* sized write: bytes in ascending address order; stops at the first inaccessible byte.
   Returns the memory and whether the whole access succeeded. *)
Fixpoint awrite_bytes (m : amem) (a : Z) (bs : list Z) : amem * bool :=
  match bs with
  | [] => (m, true)
  | b :: t => if accessible a then awrite_bytes (aupd m a b) (a + 1) t else (m, false)
  end.
Fixpoint aread_bytes (m : amem) (a : Z) (n : nat) : option (list Z) :=
  match n with
  | O => Some []
  | S k => if accessible a then
             match m a, aread_bytes m (a + 1) k with Some b, Some t => Some (b :: t) | _, _ => None end
           else None
  end.
Definition awrite (m : amem) (sz a v : Z) : amem * bool := awrite_bytes m a (be_bytes sz v).
Definition aread (m : amem) (sz a : Z) : option Z :=
  match aread_bytes m a (Z.to_nat sz) with Some bs => Some (be_value bs) | None => None end.
