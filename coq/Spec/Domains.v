(* Reference single step (fetch the words at PC, decode_ref, sem_ref), the manual's bus-cycle table
   (cycles_ref), and the executable domain predicates of properties C01-C08, C20 (the quantifier
   texts of /verif/properties.jsonl). *)
From Coq Require Import Bool ZArith Lia List.
From K Require Import Lib.Types Lib.Utf8 Model.Machine Model.Bus Spec.MemMap Spec.Price Spec.ISA.
Import ListNotations.
Open Scope bool_scope. Open Scope Z_scope.

(* ---- reference step ---- *)
Definition word_at (s : cpu) (a : Z) : Z := match mem_read SW s a with Some w => w | None => 0 end.
Definition ref_decode (s : cpu) : option (insn * Z) :=
  let p := pc s in
  decode_ref (word_at s p) (word_at s (p + 2)) (word_at s (p + 4)) (word_at s (p + 6)) (word_at s (p + 8)).
Definition ref_step (s : cpu) : option cpu :=
  match ref_decode s with Some (i, len) => sem_ref i len s | None => None end.

(* ---- memory regions of the quantifiers ---- *)
Definition in_ram (a : Z) : bool := within 0xffbf20 0xffff1f a.
Definition in_dram (a : Z) : bool := within 0x400000 0x5fffff a.
Definition in_vec (a : Z) : bool := within 0x000000 0x0000ff a.
Definition data_ok (a : Z) : bool := in_ram a || in_dram a || in_vec a.
(* the @aa:8 page minus port data registers and the 8-bit timer registers (C04) *)
Definition io2_plain_ok (a : Z) : bool :=
  within 0xffff20 0xffffe9 a && negb (within 0xffffd0 0xffffda a) && negb (within 0xffff80 0xffff99 a).

Fixpoint all_bytes (f : Z -> bool) (a : Z) (n : nat) : bool :=
  match n with O => true | S k => f a && all_bytes f (a + 1) k end.
Definition span_ok (f : Z -> bool) (a n : Z) : bool := all_bytes f a (Z.to_nat n).

(* the whole instruction lies in on-chip RAM or in DRAM, at an even address *)
Definition code_ok (s : cpu) (len : Z) : bool :=
  (pc s mod 2 =? 0) && (span_ok in_ram (pc s) len || span_ok in_dram (pc s) len).

(* ---- data accesses of an instruction: (address, size) ---- *)
Definition ea_of_move (i : insn) : option (sz * ea) :=
  match i with
  | IMovLoad z e _ => Some (z, e) | IMovStore z _ e => Some (z, e)
  | IStcW e => Some (SW, e)
  | IBit _ _ (BTMem e) => Some (SB, e)
  | _ => None
  end.

Definition accesses (i : insn) (s : cpu) : list (Z * Z) :=
  match i with
  | IMovLoad z e _ | IMovStore z _ e => [(ea_addr z s e, bytes_of z)]
  | IStcW e => [(ea_addr SW s e, 2)]
  | IBit _ _ (BTMem e) => [(ea_addr SB s e, 1)]
  | IBsr _ | IJsr (JReg _) | IJsr (JAbs _) => [((reg32 s 7 - 4) mod A24, 4)]
  | IJsr (JInd aa) => [((reg32 s 7 - 4) mod A24, 4); (aa, 4)]
  | IJmp (JInd aa) => [(aa, 4)]
  | IRts | IRte => [(reg32 s 7 mod A24, 4)]
  | ITrapa n => [((reg32 s 7 - 4) mod A24, 4); (4 * (8 + n), 4)]
  | _ => []
  end.

Definition aligned (i : insn) (s : cpu) : bool :=
  forallb (fun p => if snd p =? 1 then true else fst p mod 2 =? 0) (accesses i s).

(* data register overlapping the address register in @ERn+ / @-ERn forms *)
Definition reg_overlap (i : insn) : bool :=
  let ov (z : sz) (f r : Z) := match z with SL => f =? r | _ => (if f <? 8 then f else f - 8) =? r end in
  match i with
  | IMovLoad z (EPostInc r) rd => ov z rd r
  | IMovStore z rs (EPreDec r) => ov z rs r
  | _ => false
  end.

Definition divxu_ok (i : insn) (s : cpu) : bool :=
  match i with
  | IDivxu SB rs rd => negb (reg8 s rs =? 0) && (reg16 s rd / reg8 s rs <? 256)
  | IDivxu _ rs rd => negb (reg16 s rs =? 0) && (reg32 s rd / reg16 s rs <? 65536)
  | _ => true
  end.

(* control transfers: even displacement / target, target below 2^24 *)
Definition target_ok (i : insn) (len : Z) (s : cpu) : bool :=
  let t_ok t := (t mod 2 =? 0) && (0 <=? t) && (t <? A24) in
  match i with
  | IBcc _ d | IBsr d => t_ok (pc s + len + d)
  | IJsr (JReg 7) => t_ok ((reg32 s 7 - 4) mod A24)      (* the target register is read after the push *)
  | IJsr (JInd aa) =>
    (* the vector is not covered by the frame the call pushes (the manual leaves the order of the two accesses open) *)
    (let f := (reg32 s 7 - 4) mod A24 in (f + 4 <=? aa) || (aa + 4 <=? f)) &&
    match jump_target s (JInd aa) with Some a => t_ok a | None => false end
  | IJmp t | IJsr t => match jump_target s t with Some a => t_ok a | None => false end
  | IRts | IRte => match mem_read SL s (reg32 s 7 mod A24) with Some v => t_ok (v mod A24) | None => false end
  | ITrapa n => match mem_read SL s (4 * (8 + n)) with Some v => t_ok (v mod A24) | None => false end
  | _ => true
  end.

(* stores must not hit the instruction's own bytes or (for calls) overlap the vector being read *)
Definition disjoint_from_code (i : insn) (len : Z) (s : cpu) : bool :=
  forallb (fun p => (fst p + snd p <=? pc s) || (pc s + len <=? fst p)) (accesses i s).

(* "executes normally on plain memory": the common part of the domains *)
Definition exec_dom (f : Z -> bool) (i : insn) (len : Z) (s : cpu) : bool :=
  code_ok s len
  && forallb (fun p => span_ok f (fst p) (snd p)) (accesses i s)
  && aligned i s && negb (reg_overlap i) && divxu_ok i s && target_ok i len s
  && disjoint_from_code i len s
  && match i with IUnimplemented => false | _ => true end.

(* ---- instruction classes ---- *)
Definition is_mov (i : insn) : bool :=
  match i with IMovRR _ _ _ | IMovImm _ _ _ | IMovLoad _ _ _ | IMovStore _ _ _ => true | _ => false end.
Definition is_arith (i : insn) : bool :=
  match i with
  | IAlu2R (AAdd | ASub | ACmp | AAddx) _ _ _ | IAlu2I (AAdd | ASub | ACmp | AAddx) _ _ _ => true
  | IAlu1 (UNeg | UInc1 | UInc2 | UDec1 | UDec2) _ _ => true
  | IAdds _ _ | ISubs _ _ | IMulxu _ _ _ | IDivxu _ _ _ => true
  | _ => false
  end.
Definition is_logic (i : insn) : bool :=
  match i with
  | IAlu2R (AAnd | AOr | AXor) _ _ _ | IAlu2I (AAnd | AOr | AXor) _ _ _ => true
  | IAlu1 (UNot | UExtu | UShal | UShar | UShll | UShlr | URotl | URotr | URotxl | URotxr) _ _ => true
  | _ => false
  end.
Definition is_bit (i : insn) : bool := match i with IBit _ _ _ => true | _ => false end.
Definition is_flow (i : insn) : bool :=
  match i with IBcc _ _ | IJmp _ | IBsr _ | IJsr _ | IRts => true | _ => false end.
Definition is_exc (i : insn) : bool := match i with ITrapa _ | IRte => true | _ => false end.
Definition has_mem (i : insn) (s : cpu) : bool := match accesses i s with [] => false | _ => true end.

(* ---- known-finding classes (see KNOWN_FINDINGS.txt) ---- *)
(* SHAL: V as coded is the old sign bit; it differs from "sign changed" exactly when bit n-2 is set *)
Definition known_shal (i : insn) (s : cpu) : bool :=
  match i with
  | IAlu1 UShal z rd => (reg z s rd / 2^(bits_of z - 2)) mod 2 =? 1
  | _ => false
  end.
(* STC.W CCR,@-ERd is executed as a post-increment store *)
Definition known_stc_predec (i : insn) : bool := match i with IStcW (EPreDec _) => true | _ => false end.

(* ---- per-property domains ---- *)
Definition dom_c01 i len s := is_mov i && exec_dom data_ok i len s.
Definition dom_c02 i len s := is_arith i && exec_dom data_ok i len s.
Definition dom_c03 i len s := is_logic i && exec_dom data_ok i len s.
Definition dom_c04 i len s := is_bit i && exec_dom (fun a => in_ram a || in_dram a || io2_plain_ok a) i len s.
Definition dom_c05 i len s := is_flow i && exec_dom data_ok i len s.
Definition dom_c06 i len s := is_exc i && exec_dom data_ok i len s.
Definition dom_c08 i len s := has_mem i s && exec_dom data_ok i len s.
(* C07 (a): valid encoding of an implemented instruction that executes normally;
   C07 (b): one of the listed unimplemented instructions, fetchable *)
Definition dom_c07a i len s := exec_dom data_ok i len s.
Definition dom_c07b (i : insn) (len : Z) (s : cpu) :=
  match i with IUnimplemented => code_ok s len | _ => false end.

(* ---- bus-cycle table (advanced mode) ---- *)
Inductive where_ := AtCode | AtAddr (a : Z).
Definition cyc := (Z * Z * where_)%type.     (* kind, count, where *)

(* number of instruction-fetch cycles = words of the encoding (length / 2) for every form *)
Definition cycles_ref (i : insn) (len : Z) (s : cpu) : list cyc :=
  let I := (0, len / 2, AtCode) in
  let data (z : sz) (e : ea) := ((match z with SB => 3 | _ => 4 end), (match z with SL => 2 | _ => 1 end), AtAddr (ea_addr z s e)) in
  let n2 (e : ea) := match e with EPostInc _ | EPreDec _ => [(5, 2, AtCode)] | _ => [] end in
  let sp4 := AtAddr ((reg32 s 7 - 4) mod A24) in
  match i with
  | IMovLoad z e _ | IMovStore z _ e => [I; data z e] ++ n2 e
  | IStcW e => [I; data SW e] ++ n2 e
  | IMulxu SB _ _ | IDivxu SB _ _ => [I; (5, 12, AtCode)]
  | IMulxu _ _ _ | IDivxu _ _ _ => [I; (5, 20, AtCode)]
  | IBit o _ (BTMem e) => [I; (3, (if bit_writes o then 2 else 1), AtAddr (ea_addr SB s e))]
  | IBcc _ _ => if len =? 2 then [(0, 2, AtCode)] else [(0, 2, AtCode); (5, 2, AtCode)]
  | IJmp (JReg _) => [(0, 2, AtCode)]
  | IJmp (JAbs _) => [(0, 2, AtCode); (5, 2, AtCode)]
  | IJmp (JInd aa) => [(0, 2, AtCode); (1, 2, AtAddr aa); (5, 2, AtCode)]
  | IBsr _ => if len =? 2 then [(0, 2, AtCode); (2, 2, sp4)] else [(0, 2, AtCode); (2, 2, sp4); (5, 2, AtCode)]
  | IJsr (JReg _) => [(0, 2, AtCode); (2, 2, sp4)]
  | IJsr (JAbs _) => [(0, 2, AtCode); (2, 2, sp4); (5, 2, AtCode)]
  | IJsr (JInd aa) => [(0, 2, AtCode); (1, 2, AtAddr aa); (2, 2, sp4)]
  | IRts | IRte => [(0, 2, AtCode); (2, 2, AtAddr (reg32 s 7 mod A24)); (5, 2, AtCode)]
  | ITrapa n => [(0, 2, AtCode); (1, 2, AtAddr (4 * (8 + n))); (2, 2, sp4); (5, 4, AtCode)]
  | _ => [I]
  end.

Definition io1b (s : cpu) (off : Z) : Z := sget (b_io1 (cbus s)) off.
Definition price_at (s : cpu) (kind a : Z) : Z :=
  price_ref (on_chip_ram a)
    (settings_of_area (io1b s 0x20) (io1b s 0x21) (io1b s 0x22) (io1b s 0x23) (io1b s 0x26) (area_of a)) kind.
Definition charge_ref (i : insn) (len : Z) (s : cpu) : Z :=
  fold_right (fun (c : cyc) acc =>
      let '(k, n, w) := c in
      n * price_at s k (match w with AtCode => pc s | AtAddr a => a end) + acc)
    0 (cycles_ref i len s).

(* C20: every implemented form (TRAPA #0, the MES system call, is not an H8/300H form); code in on-chip RAM
   or DRAM; operands, stack and vectors in on-chip RAM, DRAM or the vector area *)
Definition dom_c20 (i : insn) (len : Z) (s : cpu) : bool := exec_dom data_ok i len s.

(* ---- interrupt entry through the interrupt controller (C06, C10) ---- *)
Definition dom_entry (v : Z) (s : cpu) : bool :=
  (1 <=? v) && (v <=? 63)
  && (let a := (reg32 s 7 - 4) mod A24 in span_ok (fun x => in_ram x || in_dram x) a 4 && (a mod 2 =? 0))
  && match mem_read SL s (4 * v) with
     | Some d => ((d mod A24) mod 2 =? 0)
     | None => false
     end
  && (((reg32 s 7 - 4) mod A24 + 4 <=? 4 * v) || (4 * v + 4 <=? (reg32 s 7 - 4) mod A24)).
Definition ref_entry (v : Z) (s : cpu) : option cpu := enter_ref s v (pc s).

(* ---- interrupt system on the reference (C10): FIFO of requests, accepted at a boundary while I is clear ---- *)
Definition boundary_ref (s : cpu) (q : list Z) : option (cpu * list Z) :=
  if flag (ccr s) fI then Some (s, q)
  else match q with
       | [] => Some (s, q)
       | v :: r => if dom_entry v s then obind (ref_entry v s) (fun s' => Some (s', r)) else None
       end.

(* ---- MES system calls made with TRAPA #0 (C14): ER0 = call number, ER1 -> argument block ---- *)
Fixpoint bytes_at (s : cpu) (a : Z) (n : nat) : option (list Z) :=
  match n with
  | O => Some []
  | S k => match mem8 s a, bytes_at s (a + 1) k with Some b, Some t => Some (b :: t) | _, _ => None end
  end.

(* the call itself, on the state whose PC already points to the following instruction *)
Definition mes_body (s : cpu) : option cpu :=
  let next := s in
  let id := reg32 s 0 in let arg := reg32 s 1 in
  if id =? 104 then
    (* write: {fd, buffer, length}: emit exactly the bytes once on the console and as one stdout message *)
    obind (mem_read SL s (arg + 4)) (fun buf =>
    obind (mem_read SL s (arg + 8)) (fun len =>
    obind (mem_read SL s arg) (fun _ =>
    obind (bytes_at s buf (Z.to_nat len)) (fun bs =>
    if negb (utf8_valid bs) then None else
    let s1 := set_console (console s ++ bs) next in
    Some (if sock s then set_bus (bset_msgs (b_msgs (cbus s1) ++ [MsgStdout bs]) (cbus s1)) s1 else s1)))))
  else if id =? 113 then
    (* set_handler: {vector, address}: install the handler for vectors 1-63, ignore others *)
    obind (mem_read SL s arg) (fun v =>
    obind (mem_read SL s (arg + 4)) (fun addr =>
    if (1 <=? v) && (v <=? 63) then
      obind (mem_write SL next (4 * v) ((0x5a000000 + addr) mod 4294967296)) (fun s1 =>
      mem_write SL s1 (0xfffd10 + 4 * v) (reg32 s 5))
    else Some next))
  else None.

Definition mes_ref (s : cpu) : option cpu := mes_body (with_pc (pc s + 2) s).

Definition is_mes_call (s : cpu) : bool := word_at s (pc s) =? 0x5700.
Definition dom_mes (s : cpu) : bool :=
  code_ok s 2 && (reg32 s 1 + 12 <? A24)
  && let id := reg32 s 0 in let arg := reg32 s 1 in
     if id =? 104 then
       span_ok data_ok arg 12 &&
       match mem_read SL s (arg + 4), mem_read SL s (arg + 8) with
       | Some buf, Some len => (len <=? 4096) && (buf + len <? A24) && span_ok (fun a => in_ram a || in_dram a) buf len
                               && match bytes_at s buf (Z.to_nat len) with Some bs => utf8_valid bs | None => false end
       | _, _ => false
       end
     else if id =? 113 then
       span_ok data_ok arg 8 &&
       match mem_read SL s arg with
       | Some v => (v <=? 255)
       | None => false
       end
     else true.

(* ---- reference run loop (C13): instructions in order until PC = exit address, one time base ---- *)
Definition run_data_ok (a : Z) : bool := data_ok a || port_register a.

Inductive rres := RFinished (s : cpu) | RError.

(* charge of the MES system call TRAPA #0 as the emulator accounts it: I2, K2 at the stack pointer, N4 *)
Definition mes_charge (s : cpu) : Z := 2 * price_at s 0 (pc s) + 2 * price_at s 2 (reg32 s 7 mod A24) + 4.

Definition touches_timer (i : insn) (s : cpu) : bool :=
  existsb (fun p => (fst p <=? 0xffff99) && (0xffff80 <=? fst p + snd p - 1)) (accesses i s).

(* an instruction one of whose words (as the operation-code map delimits it, unreadable words reading as 0) cannot be fetched
   fails: the run returns that error *)
Definition fetch_faults (s : cpu) : bool :=
  (pc s mod 2 =? 0) &&
  match ref_decode s with
  | Some (_, len) =>
    existsb (fun k => (k <? len) && match mem_read SW s (pc s + k) with None => true | Some _ => false end) [0; 2; 4; 6; 8]
  | None => false
  end.

Fixpoint ref_run (fuel : nat) (s : cpu) (sync : Z) : option rres :=
  match fuel with
  | O => None
  | S k =>
    let one : option (option (cpu * Z)) :=       (* None: no claim; Some None: the instruction fails; Some (Some ..): executed *)
      if is_mes_call s then
        (if dom_mes s then Some (option_map (fun s' => (s', mes_charge s)) (mes_ref s)) else None)
      else if fetch_faults s then Some None
      else
        match ref_decode s with
        | Some (IUnimplemented, len) => if code_ok s len then Some None else None
        | Some (i, len) =>
          if exec_dom run_data_ok i len s && negb (touches_timer i s) then
            match sem_ref i len s with Some s' => Some (Some (s', charge_ref i len s)) | None => None end
          else None
        | None => None
        end in
    match one with
    | None => None
    | Some None => Some RError
    | Some (Some (s1, c)) =>
      let state := 3 * c in
      let total := ssum s1 + state in
      let s2 := set_bus (bset_sum total (cbus s1)) (set_ssum total s1) in
      let sync1 := sync + state in
      let s3 := if (2000000 <=? sync1) && sock s2 then set_bus (bset_msgs (b_msgs (cbus s2) ++ [MsgSync total]) (cbus s2)) s2 else s2 in
      let sync2 := if 2000000 <=? sync1 then sync1 - 2000000 else sync1 in
      if pc s3 =? exit_addr s3 then Some (RFinished s3) else ref_run k s3 sync2
    end
  end.

(* run() first loads PC from ER2 and programs the bus controller *)
Definition ref_run_init (s : cpu) : option cpu :=
  let s0 := with_pc (reg32 s 2) s in
  obind (put8 s0 0xfee020 0xff) (fun s1 => obind (put8 s1 0xfee021 0xfb) (fun s2 => obind (put8 s2 0xfee022 0xff) (fun s3 =>
  obind (put8 s3 0xfee023 0xcf) (fun s4 => put8 s4 0xfee026 0xe0)))).
