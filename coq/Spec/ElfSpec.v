(* Reference for the ELF loader (C11, C12), written from the ELF32 specification and the MES process
   conventions, not from the emulator: fields are read at their fixed file offsets, the expected memory
   image is given point-wise, the process environment by closed formulas. *)
From Coq Require Import Bool ZArith Lia List.
From K Require Import Lib.Types Lib.Bits Model.Machine Model.Bus Model.Elf.
Import ListNotations.
Open Scope bool_scope. Open Scope Z_scope.

Definition BASE := 0x416900.          (* load base of MES user programs *)
Definition TCB := 88.

(* ---- the file as a random-access byte array ---- *)
Definition at8 (f : list Z) (i : Z) : Z := nth (Z.to_nat i) f 0.
Definition at16 (f : list Z) (i : Z) : Z := at8 f i * 256 + at8 f (i + 1).
Definition at32 (f : list Z) (i : Z) : Z := at16 f i * 65536 + at16 f (i + 2).
Definition flen (f : list Z) : Z := Z.of_nat (length f).

(* ELF32 header (System V ABI, figure 4-3): e_phoff at 28, e_shoff at 32, e_phnum at 44, e_shnum at 48, e_shstrndx at 50 *)
Definition ref_ehdr (f : list Z) : ehdr := mkEhdr (at32 f 28) (at32 f 32) (at16 f 44) (at16 f 48) (at16 f 50).
(* program header k (32 bytes): p_type 0, p_offset 4, p_vaddr 8, p_paddr 12, p_filesz 16, p_memsz 20 *)
Definition ref_phdr (f : list Z) (k : Z) : phdr :=
  let o := e_phoff (ref_ehdr f) + 32 * k in
  mkPhdr (at32 f o) (at32 f (o + 4)) (at32 f (o + 8)) (at32 f (o + 12)) (at32 f (o + 16)) (at32 f (o + 20)).
(* section header k (40 bytes): sh_name 0, sh_addr 12, sh_offset 16, sh_size 20, sh_link 24, sh_entsize 36 *)
Definition ref_shdr (f : list Z) (k : Z) : shdr :=
  let o := e_shoff (ref_ehdr f) + 40 * k in
  mkShdr (at32 f o) (at32 f (o + 12)) (at32 f (o + 16)) (at32 f (o + 20)) (at32 f (o + 24)) (at32 f (o + 36)).
(* symbol k of a table at file offset so (16 bytes): st_name 0, st_value 4 *)
Definition ref_sym (f : list Z) (so k : Z) : sym := mkSym (at32 f (so + 16 * k)) (at32 f (so + 16 * k + 4)).

Definition ref_phdrs (f : list Z) : list phdr := map (ref_phdr f) (zrange (Z.to_nat (e_phnum (ref_ehdr f)))).
Definition ref_shdrs (f : list Z) : list shdr := map (ref_shdr f) (zrange (Z.to_nat (e_shnum (ref_ehdr f)))).

(* NUL-terminated string at a file offset *)
Fixpoint cstr (l : list Z) : option (list Z) :=
  match l with [] => None | c :: t => if c =? 0 then Some [] else option_map (cons c) (cstr t) end.
Definition cstr_at (f : list Z) (off : Z) : option (list Z) :=
  if (0 <=? off) && (off <=? flen f) then cstr (skipn (Z.to_nat off) f) else None.

Definition sec_name (f : list Z) (sh : shdr) : option (list Z) :=
  cstr_at f (sh_offset (ref_shdr f (e_shstrndx (ref_ehdr f))) + sh_name sh).
Definition name_is (f : list Z) (nm : list Z) (sh : shdr) : bool :=
  match sec_name f sh with Some s => bytes_eq s nm | None => false end.
Definition find_sec (f : list Z) (nm : list Z) : option shdr := find (name_is f nm) (ref_shdrs f).

(* ---- C11: the expected image ---- *)
Definition is_load (ph : phdr) : bool := p_type ph =? 1.
Definition covers (ph : phdr) (a : Z) : bool := is_load ph && (p_vaddr ph <=? a) && (a <? p_vaddr ph + p_filesz ph).
(* the file byte that belongs at image offset a (0 when no PT_LOAD segment's file contents cover a).
   For overlapping segments the one later in the table wins; the properties are stated for non-overlapping ones. *)
Definition file_byte (f : list Z) (phs : list phdr) (a : Z) : Z :=
  match find (fun ph => covers ph a) (rev phs) with
  | Some ph => at8 f (p_offset ph + (a - p_vaddr ph))
  | None => 0
  end.
Definition byte_of (w k : Z) : Z := (w / 256 ^ (3 - k)) mod 256.      (* byte k (0 = most significant) of a 32-bit word *)
Definition got_lo (g : shdr) : Z := sh_addr g.
Definition got_hi (g : shdr) : Z := sh_addr g + 4 * (sh_size g / 4).
Definition image_byte (f : list Z) (phs : list phdr) (got : option shdr) (a : Z) : Z :=
  match got with
  | Some g =>
    if (got_lo g <=? a) && (a <? got_hi g) then
      let e := got_lo g + 4 * ((a - got_lo g) / 4) in
      let w := file_byte f phs e * 16777216 + file_byte f phs (e + 1) * 65536 + file_byte f phs (e + 2) * 256 + file_byte f phs (e + 3) in
      byte_of ((w + BASE) mod 4294967296) ((a - got_lo g) mod 4)
    else file_byte f phs a
  | None => file_byte f phs a
  end.

(* ---- C12: the process environment ---- *)
Definition up4 (a : Z) : Z := ((a + 3) / 4) * 4.
(* where the image ends: the highest PT_LOAD extent *)
Definition img_end (phs : list phdr) : Z :=
  fold_right (fun ph acc => if is_load ph then Z.max (p_paddr ph + p_memsz ph) acc else acc) 0 phs.
(* the loaded image's own extent (by virtual address): nothing is placed at or above it *)
Definition extent (phs : list phdr) : Z :=
  fold_right (fun ph acc => if is_load ph then Z.max (p_vaddr ph + p_memsz ph) acc else acc) 0 phs.
Definition stack_end (phs : list phdr) (stk : shdr) : Z := up4 (BASE + img_end phs + sh_addr stk).   (* .stack declares its size in sh_addr *)
Definition argv_at (phs : list phdr) (stk : shdr) : Z := up4 (stack_end phs stk + TCB).

Definition blank (c : Z) : bool := (c =? 32) || (c =? 9) || (c =? 10) || (c =? 11) || (c =? 12) || (c =? 13).
(* the maximal runs of non-blank bytes, in order *)
Fixpoint words_of (l : list Z) (cur : list Z) : list (list Z) :=
  match l with
  | [] => if (length cur =? 0)%nat then [] else [cur]
  | c :: t => if blank c then (if (length cur =? 0)%nat then words_of t [] else cur :: words_of t [])
              else words_of t (cur ++ [c])
  end.
Definition argv_words (args : list Z) : list (list Z) := prog_name :: words_of args [].

Definition be32_bytes (v : Z) : list Z := [byte_of v 0; byte_of v 1; byte_of v 2; byte_of v 3].
(* addresses of the strings: they follow the pointer table (argc pointers and a null pointer) back to back *)
Fixpoint str_addrs (a : Z) (ws : list (list Z)) : list Z :=
  match ws with [] => [] | w :: t => a :: str_addrs (a + Z.of_nat (length w) + 1) t end.
Definition arg_block (at_ : Z) (ws : list (list Z)) : list Z :=
  let n := Z.of_nat (length ws) in
  flat_map be32_bytes (str_addrs (at_ + 4 * (n + 1)) ws) ++ [0; 0; 0; 0] ++ flat_map (fun w => w ++ [0]) ws.

(* the last symbol named ___exit *)
Definition exit_value (f : list Z) (symh : shdr) : option Z :=
  let n := Z.to_nat (sh_size symh / sh_entsize symh) in
  let stroff := sh_offset (ref_shdr f (sh_link symh)) in
  match find (fun k => match cstr_at f (stroff + st_name (ref_sym f (sh_offset symh) k)) with Some s => bytes_eq s n_exit | None => false end)
             (rev (zrange n)) with
  | Some k => Some (st_value (ref_sym f (sh_offset symh) k))
  | None => None
  end.

Record expected := mkExp {
  x_dram : Z -> Z;            (* DRAM index -> byte *)
  x_er : regs;
  x_exit : Z
}.

(* the state after loading, given which of the special sections exist *)
Definition expected_with (f : list Z) (args : list Z) (er0 : regs) (exit0 : Z) (got stk symt : option shdr) : expected :=
  let phs := ref_phdrs f in
  let ws := argv_words args in
  let blk := match stk with Some s => arg_block (argv_at phs s) ws | None => [] end in
  let blk_lo := match stk with Some s => argv_at phs s - DRAM_START | None => 0 end in
  let dram := fun i =>
    if (blk_lo <=? i) && (i <? blk_lo + Z.of_nat (length blk)) then nth (Z.to_nat (i - blk_lo)) blk 0
    else if (BASE - DRAM_START <=? i) then image_byte f phs got (i - (BASE - DRAM_START)) else 0 in
  let r2 := set_er er0 2 BASE in
  let r5 := match got with Some g => set_er r2 5 (BASE + sh_addr g) | None => r2 end in
  let r7 := match stk with
            | Some s => set_er (set_er (set_er r5 7 (stack_end phs s - 8)) 0 (Z.of_nat (length ws))) 1 (argv_at phs s)
            | None => r5 end in
  let ex := match symt with
            | Some sy => match exit_value f sy with Some v => BASE + v | None => exit0 end
            | None => exit0 end in
  mkExp dram r7 ex.

Definition expected_of (f : list Z) (args : list Z) (er0 : regs) (exit0 : Z) : expected :=
  expected_with f args er0 exit0 (find_sec f n_got) (find_sec f n_stack) (find_sec f n_symtab).

(* indices at which the expected image can be non-zero (for printing it) *)
Definition candidates (f : list Z) (args : list Z) : list (Z * Z) :=      (* (start index, length) *)
  let phs := ref_phdrs f in
  let segs := flat_map (fun ph => if is_load ph then [(BASE - DRAM_START + p_vaddr ph, p_filesz ph)] else []) phs in
  let got := match find_sec f n_got with Some g => [(BASE - DRAM_START + got_lo g, got_hi g - got_lo g)] | None => [] end in
  let blk := match find_sec f n_stack with
             | Some s => [(argv_at phs s - DRAM_START, Z.of_nat (length (arg_block (argv_at phs s) (argv_words args))))]
             | None => [] end in
  segs ++ got ++ blk.

(* ---- the files the properties quantify over ---- *)
Definition printable_or_blank (c : Z) : bool := ((32 <=? c) && (c <=? 126)) || (c =? 9).
Definition graphic_name (s : list Z) : bool := forallb is_graphic s.
Definition count_named (f : list Z) (nm : list Z) : nat := length (filter (name_is f nm) (ref_shdrs f)).

Definition disjoint_loads (phs : list phdr) : bool :=
  (fix go (l : list phdr) : bool :=
     match l with
     | [] => true
     | p :: t => forallb (fun q => negb (is_load p && is_load q) || (p_vaddr p + p_memsz p <=? p_vaddr q) || (p_vaddr q + p_memsz q <=? p_vaddr p)) t && go t
     end) phs.

Definition wf_elf (f : list Z) (args : list Z) : bool :=
  let hd := ref_ehdr f in
  let phs := ref_phdrs f in
  let shs := ref_shdrs f in
  let top := DRAM_SIZE - (BASE - DRAM_START) in        (* image offsets must stay below this *)
  (52 <=? flen f)
  && bytes_eq (firstn 4 f) [0x7f; 69; 76; 70]
  && forallb (fun b => (0 <=? b) && (b <=? 255)) f
  && (e_phoff hd + 32 * e_phnum hd <=? flen f) && (e_shoff hd + 40 * e_shnum hd <=? flen f)
  && (e_shstrndx hd <? e_shnum hd)
  && forallb (fun sh => match sec_name f sh with Some s => graphic_name s | None => false end) shs
  && forallb (fun ph => negb (is_load ph) ||
        ((p_offset ph + p_filesz ph <=? flen f) && (p_filesz ph <=? p_memsz ph) && (p_vaddr ph + p_memsz ph <=? top))) phs
  && disjoint_loads phs
  && (count_named f n_got <=? 1)%nat && (count_named f n_stack <=? 1)%nat && (count_named f n_symtab <=? 1)%nat
  && match find_sec f n_got with
     | Some g => (got_hi g <=? extent phs) && (BASE + sh_addr g <? 4294967296)
     | None => true end
  && match find_sec f n_stack with
     | Some s => let blk := arg_block (argv_at phs s) (argv_words args) in
                 (* the stack is placed at the image end computed from p_paddr: it must not be below the loaded image *)
                 (extent phs <=? img_end phs) &&
                 (8 <=? stack_end phs s) && (argv_at phs s - DRAM_START + Z.of_nat (length blk) <=? DRAM_SIZE)
     | None => true end
  && match find_sec f n_symtab with
     | Some sy => (0 <? sh_entsize sy) && (sh_entsize sy =? 16) && (sh_offset sy + sh_size sy <=? flen f)
                  && (sh_link sy <? e_shnum hd) && (sh_offset (ref_shdr f (sh_link sy)) <=? flen f)
                  && forallb (fun k => st_name (ref_sym f (sh_offset sy) k) + sh_offset (ref_shdr f (sh_link sy)) <=? flen f)
                             (zrange (Z.to_nat (sh_size sy / 16)))
                  && match exit_value f sy with Some v => BASE + v <? 4294967296 | None => true end
     | None => true end
  && forallb printable_or_blank args.
