(* Reference model of one I/O port (property C16): data latch + direction register + external pins. *)
From Coq Require Import Bool ZArith List.
Import ListNotations.
Open Scope Z_scope.

Record port := mkPort { p_latch : Z; p_ddr : Z; p_pin : Z }.

Inductive pevent :=
| PWriteDdr (v : Z)      (* CPU writes the direction register *)
| PWriteDr (v : Z)       (* CPU writes the data register *)
| PInput (v : Z).        (* the external levels change *)

Definition inv8 (x : Z) : Z := 255 - x.
(* value read from DR: latch where the bit is an output, pin where it is an input *)
Definition p_read (p : port) : Z := Z.lor (Z.land (p_latch p) (p_ddr p)) (Z.land (inv8 (p_ddr p)) (p_pin p)).
(* value driven on the pins *)
Definition p_out (p : port) : Z := Z.land (p_latch p) (p_ddr p).

Definition pstep (p : port) (e : pevent) : port :=
  match e with
  | PWriteDdr v => mkPort (p_latch p) v (p_pin p)
  | PWriteDr v => mkPort v (p_ddr p) (p_pin p)
  | PInput v => mkPort (p_latch p) (p_ddr p) v
  end.

Definition port0 : port := mkPort 0 0 0.
