(* Reference run loop with the 8-bit timer (C13): every instruction's charge is shown to the tick-by-tick
   timer reference of C17, including the charge of the instruction that reaches the exit address. *)
From Coq Require Import Bool ZArith List.
From K Require Import Lib.Types Model.Machine Model.Bus Spec.Price Spec.MemMap Spec.ISA Spec.Domains Spec.TimerSpec.
Import ListNotations.
Open Scope bool_scope. Open Scope Z_scope.

Definition TCR := 0xffff80. Definition TCSR := 0xffff82. Definition TCNT := 0xffff88.

(* byte stores to TCR, TCORA, TCORB and TCNT are within the claim (TCSR writes are not) *)
Definition timer_reg (a : Z) : bool := (a =? TCR) || (a =? 0xffff84) || (a =? 0xffff86) || (a =? TCNT).
Definition timer_data_ok (a : Z) : bool := run_data_ok a || timer_reg a || (a =? TCSR).
Definition is_timer_store (i : insn) (s : cpu) : bool :=
  match i with IMovStore SB _ e => timer_reg (ea_addr SB s e) | _ => false end.
(* byte loads from the timer registers (TCSR too): the value is the one the reference timer left after the previous instruction *)
Definition is_timer_load (i : insn) (s : cpu) : bool :=
  match i with IMovLoad SB e _ => timer_reg (ea_addr SB s e) || (ea_addr SB s e =? TCSR) | _ => false end.
Definition is_tcr_store (i : insn) (s : cpu) : bool :=
  match i with IMovStore SB _ e => ea_addr SB s e =? TCR | _ => false end.

(* the timer registers as the program left them, counting state from the reference timer *)
Definition tmr_of (s : cpu) (t : tmr) : option tmr :=
  match mem8 s TCNT, mem8 s TCSR, mem8 s 0xffff84, mem8 s 0xffff86 with
  | Some n, Some sr, Some a, Some b => Some (mkTmr n sr a b (cmieb t) (cmiea t) (ovie t) (cclr t) (divisor t) (phase t))
  | _, _, _, _ => None
  end.

Inductive rres_t := RTFinished (s : cpu) (t : tmr) (q : list Z) | RTError.

Fixpoint ref_run_t (fuel : nat) (s : cpu) (sync : Z) (t : tmr) (q : list Z) : option rres_t :=
  match fuel with
  | O => None
  | S k =>
    (* instruction boundary: the oldest pending request is accepted when I is clear (C10's reference) *)
    match boundary_ref s q with
    | None => None
    | Some (s, q) =>
    let one : option (option (cpu * Z * bool)) :=
      if is_mes_call s then
        (if dom_mes s then Some (option_map (fun s' => (s', mes_charge s, false)) (mes_ref s)) else None)
      else if fetch_faults s then Some None
      else
        match ref_decode s with
        | Some (IUnimplemented, len) => if code_ok s len then Some None else None
        | Some (i, len) =>
          if exec_dom timer_data_ok i len s && (negb (touches_timer i s) || is_timer_store i s || is_timer_load i s) then
            match sem_ref i len s with Some s' => Some (Some (s', charge_ref i len s, is_tcr_store i s)) | None => None end
          else None
        | None => None
        end in
    match one with
    | None => None
    | Some None => Some RTError
    | Some (Some (s1, c, wrote_tcr)) =>
      let state := 3 * c in
      let total := ssum s1 + state in
      let s2 := set_bus (bset_sum total (cbus s1)) (set_ssum total s1) in
      let sync1 := sync + state in
      let s3 := if (2000000 <=? sync1) && sock s2 then set_bus (bset_msgs (b_msgs (cbus s2) ++ [MsgSync total]) (cbus s2)) s2 else s2 in
      let sync2 := if 2000000 <=? sync1 then sync1 - 2000000 else sync1 in
      (* the timer sees the same states *)
      match (if wrote_tcr then match mem8 s3 TCR with Some v => Some (write_tcr_ref t v) | None => None end else Some t) with
      | None => None
      | Some t1 =>
        match tmr_of s3 t1 with
        | None => None
        | Some t2 =>
          if negb (side_ok t2) then None else
          let '(t3, rq) := states_ref (Z.to_nat state) t2 in
          match obind (put8 s3 TCNT (tcnt t3)) (fun s4 => put8 s4 TCSR (tcsr t3)) with
          | None => None
          | Some s5 =>
            if pc s5 =? exit_addr s5 then Some (RTFinished s5 t3 (q ++ rq)) else ref_run_t k s5 sync2 t3 (q ++ rq)
          end
        end
      end
    end
    end
  end.

Definition tmr0 : tmr := mkTmr 0 0 0 0 false false false 0 0 0.
