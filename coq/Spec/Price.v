(* Reference price list for one bus cycle (property C19), transcribed from the
   H8/3069F bus-controller description.  No reference to the model. *)
From Coq Require Import Bool ZArith Lia.
Open Scope bool_scope. Open Scope Z_scope.

(* cycle kinds: 0 I (fetch) 1 J (branch address) 2 K (stack) 3 L (byte data) 4 M (word data) 5 N (internal) *)
Definition word_sized (kind : Z) : bool := (kind =? 0) || (kind =? 1) || (kind =? 2) || (kind =? 4).

Record area_cfg := mkCfg {
  c_8bit : bool;     (* ABWCR bit of the area = 1 *)
  c_3state : bool;   (* ASTCR bit of the area = 1 *)
  c_wait : Z;        (* programmed wait states 0-3 (WCRH / WCRL pair of the area) *)
  c_dram : bool      (* the area is DRAM space *)
}.

Definition on_chip_ram (addr : Z) : bool := (0xffbf20 <=? addr) && (addr <=? 0xffff1f).
Definition area_of (addr : Z) : Z := addr / 0x200000.

Definition bit (x i : Z) : bool := (x / 2^i) mod 2 =? 1.

(* the settings that concern area [a], as programmed in ABWCR, ASTCR, WCRH, WCRL, DRCRA *)
Definition settings_of_area (abwcr astcr wcrh wcrl drcra a : Z) : area_cfg :=
  mkCfg (bit abwcr a) (bit astcr a)
        (if a <? 4 then (wcrl / 2^(2*a)) mod 4 else (wcrh / 2^(2*(a-4))) mod 4)
        ((a =? 2) && (1 <=? drcra / 32)).

Definition per_access (c : area_cfg) : Z :=
  if c_dram c then 4 + c_wait c else if c_3state c then 3 + c_wait c else 2.

Definition price_ref (ram : bool) (c : area_cfg) (kind : Z) : Z :=
  if kind =? 5 then 1
  else if ram then 2
  else (if c_8bit c && word_sized kind then 2 else 1) * per_access c.

(* domain of C19 *)
Definition io_register_addr (addr : Z) : bool :=
  ((0xfee000 <=? addr) && (addr <=? 0xfee0ff)) || ((0xffff20 <=? addr) && (addr <=? 0xffffe9)).

Definition dom_c19 (drcra kind n addr : Z) : bool :=
  (0 <=? kind) && (kind <=? 5) && (1 <=? n) && (n <=? 5) &&
  (0 <=? addr) && (addr <=? 0xffffff) && negb (io_register_addr addr) &&
  (let a := area_of addr in if (3 <=? a) && (a <=? 5) then drcra / 32 <=? 1 else true).
