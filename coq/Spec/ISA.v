(* Reference definition of the implemented part of the H8/300H instruction set (advanced mode):
   operation-code map (decode_ref), instruction semantics on the architectural state (sem_ref),
   flag rules as arithmetic on Z, effective addresses modulo 2^24.
   Transcribed by hand from the H8/300H programming manual (see DESIGN.md appendix A); it does not
   refer to the model's handlers.  The state space (record cpu) and byte-level bus access are shared
   with the model; everything else (register lanes, big-endian composition, flags) is defined here
   arithmetically. *)
From Coq Require Import Bool ZArith Lia List.
From K Require Import Lib.Types Model.Machine Model.Bus.
Import ListNotations.
Open Scope bool_scope. Open Scope Z_scope.

(* ------------------------------------------------------------------ instructions *)
Inductive ea :=
| EInd (er : Z)                (* @ERn *)
| EDisp (er : Z) (d : Z)       (* @(d:16,ERn) / @(d:24,ERn), d sign-extended *)
| EPostInc (er : Z)            (* @ERn+ *)
| EPreDec (er : Z)             (* @-ERn *)
| EAbs (a : Z).                (* @aa:8 / @aa:16 / @aa:24 extended to a 24-bit address *)

Inductive bitsrc := BImm (k : Z) | BReg (rn : Z).
Inductive bittgt := BTReg (rd : Z) | BTMem (e : ea).
Inductive jtarget := JReg (er : Z) | JAbs (a : Z) | JInd (aa : Z).

Inductive insn :=
| IMovRR (s : sz) (rs rd : Z)
| IMovImm (s : sz) (imm rd : Z)
| IMovLoad (s : sz) (e : ea) (rd : Z)
| IMovStore (s : sz) (rs : Z) (e : ea)
| IAlu2R (o : alu2) (s : sz) (rs rd : Z)
| IAlu2I (o : alu2) (s : sz) (imm rd : Z)
| IAlu1 (o : alu1) (s : sz) (rd : Z)
| IAdds (k rd : Z) | ISubs (k rd : Z)
| IMulxu (s : sz) (rs rd : Z)        (* s = size of the source: SB (8x8->16) or SW (16x16->32) *)
| IDivxu (s : sz) (rs rd : Z)
| IBit (o : bop) (b : bitsrc) (t : bittgt)
| IBcc (cc : Z) (d : Z)              (* d sign-extended *)
| IJmp (t : jtarget)
| IBsr (d : Z)
| IJsr (t : jtarget)
| IRts | IRte
| ITrapa (n : Z)                     (* 1-3 *)
| IStcB (rd : Z)
| IStcW (e : ea)
| IUnimplemented.                    (* NOP, LDC, ANDC/ORC/XORC, SUBX, DAA/DAS, EXTS, MULXS/DIVXS, SLEEP, EEPMOV, MOVFPE/MOVTPE *)

(* ------------------------------------------------------------------ operation-code map *)
Definition n1 (w : Z) := (w / 4096) mod 16.
Definition n2 (w : Z) := (w / 256) mod 16.
Definition n3 (w : Z) := (w / 16) mod 16.
Definition n4 (w : Z) := w mod 16.
Definition hib (w : Z) := w / 256.
Definition lob (w : Z) := w mod 256.
Definition sx (n x : Z) : Z := if x <? 2^(n-1) then x else x - 2^n.     (* sign extension of an n-bit field *)
Definition abs16 (a : Z) : Z := (sx 16 a) mod 16777216.                     (* @aa:16 *)
Definition abs8 (a : Z) : Z := 0xffff00 + a.                                 (* @aa:8 *)

Definition ok (i : insn) (len : Z) : option (insn * Z) := Some (i, len).
Definition req (b : bool) (r : option (insn * Z)) : option (insn * Z) := if b then r else None.
Definition er_lo (x : Z) : bool := x <? 8.

(* shift / rotate / NOT / NEG group: second byte = (kind nibble)(register) *)
Definition dec_unary (w : Z) (ob ow ol ab aw al : option alu1) : option (insn * Z) :=
  let k := n3 w in let r := n4 w in
  let mk (o : option alu1) (s : sz) (need_er : bool) :=
    match o with Some u => req (negb need_er || er_lo r) (ok (IAlu1 u s r) 2) | None => None end in
  if k =? 0 then mk ob SB false else if k =? 1 then mk ow SW false else if k =? 3 then mk ol SL true
  else if k =? 8 then mk ab SB false else if k =? 9 then mk aw SW false else if k =? 0xb then mk al SL true
  else None.

(* memory MOV of size s whose operand word is w (register fields in n3 / n4), later words x1 x2 *)
Definition dec_mov_mem (s : sz) (w x1 x2 : Z) (base_len : Z) : option (insn * Z) :=
  let h := hib w in let a := n3 w in let r := n4 w in
  let rok := match s with SL => er_lo r | _ => true end in
  let ld := a <? 8 in
  let ern := if ld then a else a - 8 in
  let size_ok := match s with
                 | SB => (h =? 0x68) || (h =? 0x6e) || (h =? 0x6c) || (h =? 0x6a)
                 | _ => (h =? 0x69) || (h =? 0x6f) || (h =? 0x6d) || (h =? 0x6b) end in
  if negb size_ok then None
  else if (h =? 0x68) || (h =? 0x69) then
    req rok (ok (if ld then IMovLoad s (EInd ern) r else IMovStore s r (EInd ern)) base_len)
  else if (h =? 0x6e) || (h =? 0x6f) then
    req rok (ok (if ld then IMovLoad s (EDisp ern (sx 16 x1)) r else IMovStore s r (EDisp ern (sx 16 x1))) (base_len + 2))
  else if (h =? 0x6c) || (h =? 0x6d) then
    req rok (ok (if ld then IMovLoad s (EPostInc ern) r else IMovStore s r (EPreDec ern)) base_len)
  else if (h =? 0x6a) || (h =? 0x6b) then
    if a =? 0 then req rok (ok (IMovLoad s (EAbs (abs16 x1)) r) (base_len + 2))
    else if a =? 8 then req rok (ok (IMovStore s r (EAbs (abs16 x1))) (base_len + 2))
    else if a =? 2 then req (rok && (hib x1 =? 0)) (ok (IMovLoad s (EAbs (lob x1 * 65536 + x2)) r) (base_len + 4))
    else if a =? 0xa then req (rok && (hib x1 =? 0)) (ok (IMovStore s r (EAbs (lob x1 * 65536 + x2))) (base_len + 4))
    else if (a =? 4) || (a =? 0xc) then req (h =? 0x6a) (ok IUnimplemented 4)     (* MOVFPE / MOVTPE *)
    else None
  else None.

(* bit instructions on a memory operand: prefix gives the target, w the operation *)
Definition dec_bit_mem (readonly : bool) (t : bittgt) (w : Z) : option (insn * Z) :=
  let h := hib w in let a := n3 w in
  let k := if a <? 8 then a else a - 8 in
  req (n4 w =? 0)
  (if readonly then
     if h =? 0x63 then ok (IBit BTst (BReg a) t) 4
     else if h =? 0x73 then req (a <? 8) (ok (IBit BTst (BImm a) t) 4)
     else if h =? 0x74 then ok (IBit (if a <? 8 then BOr else BIOr) (BImm k) t) 4
     else if h =? 0x75 then ok (IBit (if a <? 8 then BXor else BIXor) (BImm k) t) 4
     else if h =? 0x76 then ok (IBit (if a <? 8 then BAnd else BIAnd) (BImm k) t) 4
     else if h =? 0x77 then ok (IBit (if a <? 8 then BLd else BILd) (BImm k) t) 4
     else None
   else
     if h =? 0x60 then ok (IBit BSet (BReg a) t) 4
     else if h =? 0x61 then ok (IBit BNot (BReg a) t) 4
     else if h =? 0x62 then ok (IBit BClr (BReg a) t) 4
     else if h =? 0x70 then req (a <? 8) (ok (IBit BSet (BImm a) t) 4)
     else if h =? 0x71 then req (a <? 8) (ok (IBit BNot (BImm a) t) 4)
     else if h =? 0x72 then req (a <? 8) (ok (IBit BClr (BImm a) t) 4)
     else if h =? 0x67 then ok (IBit (if a <? 8 then BSt else BISt) (BImm k) t) 4
     else None).

Definition dec_imm_group (s : sz) (w imm : Z) (len : Z) : option (insn * Z) :=
  let k := n3 w in let r := n4 w in
  let rok := match s with SL => er_lo r | _ => true end in
  req rok
  (if k =? 0 then ok (IMovImm s imm r) len else if k =? 1 then ok (IAlu2I AAdd s imm r) len
   else if k =? 2 then ok (IAlu2I ACmp s imm r) len else if k =? 3 then ok (IAlu2I ASub s imm r) len
   else if k =? 4 then ok (IAlu2I AOr s imm r) len else if k =? 5 then ok (IAlu2I AXor s imm r) len
   else if k =? 6 then ok (IAlu2I AAnd s imm r) len else None).

(* w0 .. w4 : the instruction words starting at PC *)
Definition decode_ref (w0 w1 w2 w3 w4 : Z) : option (insn * Z) :=
  let h := hib w0 in let l := lob w0 in let a := n3 w0 in let r := n4 w0 in
  let k8 := if a <? 8 then a else a - 8 in
  if h =? 0x00 then req (l =? 0) (ok IUnimplemented 2)                                  (* NOP *)
  else if h =? 0x01 then
    if l =? 0x00 then
      (if hib w1 =? 0x78 then
         (* MOV.L @(d:24,ERs),ERd : 0100 78 0ers 0 6B 2 0erd 00 disp24 ; store: 0100 78 1erd 0 6B A 0ers *)
         let ld := n3 w1 <? 8 in
         let ern := if ld then n3 w1 else n3 w1 - 8 in
         req ((n4 w1 =? 0) && (hib w2 =? 0x6b) && (n3 w2 =? (if ld then 2 else 0xa)) && er_lo (n4 w2) && (hib w3 =? 0))
             (ok (if ld then IMovLoad SL (EDisp ern (sx 24 (lob w3 * 65536 + w4))) (n4 w2)
                  else IMovStore SL (n4 w2) (EDisp ern (sx 24 (lob w3 * 65536 + w4)))) 10)
       else dec_mov_mem SL w1 w2 w3 4)
    else if l =? 0x40 then
      (* STC.W CCR,<ea> / LDC.W <ea>,CCR *)
      let h1 := hib w1 in let a1 := n3 w1 in
      if (h1 =? 0x69) then req (n4 w1 =? 0) (if a1 <? 8 then ok IUnimplemented 4 else ok (IStcW (EInd (a1 - 8))) 4)
      else if h1 =? 0x6f then req (n4 w1 =? 0) (if a1 <? 8 then ok IUnimplemented 6 else ok (IStcW (EDisp (a1 - 8) (sx 16 w2))) 6)
      else if h1 =? 0x6d then req (n4 w1 =? 0) (if a1 <? 8 then ok IUnimplemented 4 else ok (IStcW (EPreDec (a1 - 8))) 4)
      else if h1 =? 0x78 then
        req ((a1 <? 8) && (n4 w1 =? 0) && (hib w3 =? 0))
            (if w2 =? 0x6ba0 then ok (IStcW (EDisp a1 (sx 24 (lob w3 * 65536 + w4)))) 10
             else if w2 =? 0x6b20 then ok IUnimplemented 10 else None)
      else if h1 =? 0x6b then
        if lob w1 =? 0x80 then ok (IStcW (EAbs (abs16 w2))) 6
        else if lob w1 =? 0x00 then ok IUnimplemented 6
        else if lob w1 =? 0xa0 then req (hib w2 =? 0) (ok (IStcW (EAbs (lob w2 * 65536 + w3))) 8)
        else if lob w1 =? 0x20 then req (hib w2 =? 0) (ok IUnimplemented 8)
        else None
      else None
    else if l =? 0x80 then ok IUnimplemented 2                                             (* SLEEP *)
    else if l =? 0xc0 then req ((hib w1 =? 0x50) || ((hib w1 =? 0x52) && er_lo (n4 w1))) (ok IUnimplemented 4)  (* MULXS *)
    else if l =? 0xd0 then req ((hib w1 =? 0x51) || ((hib w1 =? 0x53) && er_lo (n4 w1))) (ok IUnimplemented 4)  (* DIVXS *)
    else if l =? 0xf0 then
      let o := if hib w1 =? 0x64 then Some AOr else if hib w1 =? 0x65 then Some AXor
               else if hib w1 =? 0x66 then Some AAnd else None in
      match o with Some o => req (er_lo (n3 w1) && er_lo (n4 w1)) (ok (IAlu2R o SL (n3 w1) (n4 w1)) 4) | None => None end
    else None
  else if h =? 0x02 then req (a =? 0) (ok (IStcB r) 2)
  else if h =? 0x03 then req (a =? 0) (ok IUnimplemented 2)                              (* LDC Rs,CCR *)
  else if (h =? 0x04) || (h =? 0x05) || (h =? 0x06) || (h =? 0x07) then ok IUnimplemented 2   (* ORC XORC ANDC LDC# *)
  else if h =? 0x08 then ok (IAlu2R AAdd SB a r) 2
  else if h =? 0x09 then ok (IAlu2R AAdd SW a r) 2
  else if h =? 0x0a then
    (if a =? 0 then ok (IAlu1 UInc1 SB r) 2 else req ((8 <=? a) && er_lo r) (ok (IAlu2R AAdd SL (a - 8) r) 2))
  else if h =? 0x0b then
    (if a =? 0 then req (er_lo r) (ok (IAdds 1 r) 2) else if a =? 8 then req (er_lo r) (ok (IAdds 2 r) 2)
     else if a =? 9 then req (er_lo r) (ok (IAdds 4 r) 2)
     else if a =? 5 then ok (IAlu1 UInc1 SW r) 2 else if a =? 0xd then ok (IAlu1 UInc2 SW r) 2
     else if a =? 7 then req (er_lo r) (ok (IAlu1 UInc1 SL r) 2)
     else if a =? 0xf then req (er_lo r) (ok (IAlu1 UInc2 SL r) 2) else None)
  else if h =? 0x0c then ok (IMovRR SB a r) 2
  else if h =? 0x0d then ok (IMovRR SW a r) 2
  else if h =? 0x0e then ok (IAlu2R AAddx SB a r) 2
  else if h =? 0x0f then
    (if a =? 0 then ok IUnimplemented 2 (* DAA *) else req ((8 <=? a) && er_lo r) (ok (IMovRR SL (a - 8) r) 2))
  else if h =? 0x10 then dec_unary w0 (Some UShll) (Some UShll) (Some UShll) (Some UShal) (Some UShal) (Some UShal)
  else if h =? 0x11 then dec_unary w0 (Some UShlr) (Some UShlr) (Some UShlr) (Some UShar) (Some UShar) (Some UShar)
  else if h =? 0x12 then dec_unary w0 (Some URotxl) (Some URotxl) (Some URotxl) (Some URotl) (Some URotl) (Some URotl)
  else if h =? 0x13 then dec_unary w0 (Some URotxr) (Some URotxr) (Some URotxr) (Some URotr) (Some URotr) (Some URotr)
  else if h =? 0x14 then ok (IAlu2R AOr SB a r) 2
  else if h =? 0x15 then ok (IAlu2R AXor SB a r) 2
  else if h =? 0x16 then ok (IAlu2R AAnd SB a r) 2
  else if h =? 0x17 then
    (if a =? 5 then ok (IAlu1 UExtu SW r) 2 else if a =? 7 then req (er_lo r) (ok (IAlu1 UExtu SL r) 2)
     else if a =? 0xd then ok IUnimplemented 2 else if a =? 0xf then req (er_lo r) (ok IUnimplemented 2)   (* EXTS *)
     else dec_unary w0 (Some UNot) (Some UNot) (Some UNot) (Some UNeg) (Some UNeg) (Some UNeg))
  else if h =? 0x18 then ok (IAlu2R ASub SB a r) 2
  else if h =? 0x19 then ok (IAlu2R ASub SW a r) 2
  else if h =? 0x1a then
    (if a =? 0 then ok (IAlu1 UDec1 SB r) 2 else req ((8 <=? a) && er_lo r) (ok (IAlu2R ASub SL (a - 8) r) 2))
  else if h =? 0x1b then
    (if a =? 0 then req (er_lo r) (ok (ISubs 1 r) 2) else if a =? 8 then req (er_lo r) (ok (ISubs 2 r) 2)
     else if a =? 9 then req (er_lo r) (ok (ISubs 4 r) 2)
     else if a =? 5 then ok (IAlu1 UDec1 SW r) 2 else if a =? 0xd then ok (IAlu1 UDec2 SW r) 2
     else if a =? 7 then req (er_lo r) (ok (IAlu1 UDec1 SL r) 2)
     else if a =? 0xf then req (er_lo r) (ok (IAlu1 UDec2 SL r) 2) else None)
  else if h =? 0x1c then ok (IAlu2R ACmp SB a r) 2
  else if h =? 0x1d then ok (IAlu2R ACmp SW a r) 2
  else if h =? 0x1e then ok IUnimplemented 2                                                (* SUBX Rs,Rd *)
  else if h =? 0x1f then
    (if a =? 0 then ok IUnimplemented 2 (* DAS *) else req ((8 <=? a) && er_lo r) (ok (IAlu2R ACmp SL (a - 8) r) 2))
  else if (0x20 <=? h) && (h <=? 0x2f) then ok (IMovLoad SB (EAbs (abs8 l)) (n2 w0)) 2
  else if (0x30 <=? h) && (h <=? 0x3f) then ok (IMovStore SB (n2 w0) (EAbs (abs8 l))) 2
  else if (0x40 <=? h) && (h <=? 0x4f) then ok (IBcc (n2 w0) (sx 8 l)) 2
  else if h =? 0x50 then ok (IMulxu SB a r) 2
  else if h =? 0x51 then ok (IDivxu SB a r) 2
  else if h =? 0x52 then req (er_lo r) (ok (IMulxu SW a r) 2)
  else if h =? 0x53 then req (er_lo r) (ok (IDivxu SW a r) 2)
  else if h =? 0x54 then req (l =? 0x70) (ok IRts 2)
  else if h =? 0x55 then ok (IBsr (sx 8 l)) 2
  else if h =? 0x56 then req (l =? 0x70) (ok IRte 2)
  else if h =? 0x57 then req ((r =? 0) && (1 <=? a) && (a <=? 3)) (ok (ITrapa a) 2)
  else if h =? 0x58 then req (r =? 0) (ok (IBcc a (sx 16 w1)) 4)
  else if h =? 0x59 then req ((a <? 8) && (r =? 0)) (ok (IJmp (JReg a)) 2)
  else if h =? 0x5a then ok (IJmp (JAbs (l * 65536 + w1))) 4
  else if h =? 0x5b then ok (IJmp (JInd l)) 2
  else if h =? 0x5c then req (l =? 0) (ok (IBsr (sx 16 w1)) 4)
  else if h =? 0x5d then req ((a <? 8) && (r =? 0)) (ok (IJsr (JReg a)) 2)
  else if h =? 0x5e then ok (IJsr (JAbs (l * 65536 + w1))) 4
  else if h =? 0x5f then ok (IJsr (JInd l)) 2
  else if h =? 0x60 then ok (IBit BSet (BReg a) (BTReg r)) 2
  else if h =? 0x61 then ok (IBit BNot (BReg a) (BTReg r)) 2
  else if h =? 0x62 then ok (IBit BClr (BReg a) (BTReg r)) 2
  else if h =? 0x63 then ok (IBit BTst (BReg a) (BTReg r)) 2
  else if h =? 0x64 then ok (IAlu2R AOr SW a r) 2
  else if h =? 0x65 then ok (IAlu2R AXor SW a r) 2
  else if h =? 0x66 then ok (IAlu2R AAnd SW a r) 2
  else if h =? 0x67 then ok (IBit (if a <? 8 then BSt else BISt) (BImm k8) (BTReg r)) 2
  else if (h =? 0x68) || (h =? 0x6e) || (h =? 0x6c) || (h =? 0x6a) then dec_mov_mem SB w0 w1 w2 2
  else if (h =? 0x69) || (h =? 0x6f) || (h =? 0x6d) || (h =? 0x6b) then dec_mov_mem SW w0 w1 w2 2
  else if h =? 0x70 then req (a <? 8) (ok (IBit BSet (BImm a) (BTReg r)) 2)
  else if h =? 0x71 then req (a <? 8) (ok (IBit BNot (BImm a) (BTReg r)) 2)
  else if h =? 0x72 then req (a <? 8) (ok (IBit BClr (BImm a) (BTReg r)) 2)
  else if h =? 0x73 then req (a <? 8) (ok (IBit BTst (BImm a) (BTReg r)) 2)
  else if h =? 0x74 then ok (IBit (if a <? 8 then BOr else BIOr) (BImm k8) (BTReg r)) 2
  else if h =? 0x75 then ok (IBit (if a <? 8 then BXor else BIXor) (BImm k8) (BTReg r)) 2
  else if h =? 0x76 then ok (IBit (if a <? 8 then BAnd else BIAnd) (BImm k8) (BTReg r)) 2
  else if h =? 0x77 then ok (IBit (if a <? 8 then BLd else BILd) (BImm k8) (BTReg r)) 2
  else if h =? 0x78 then
    (* MOV.B/W @(d:24,ERs),Rd : 78 0ers 0 6A/6B 2 rd 00 disp24 ; store 78 0erd 0 6A/6B A rs 00 disp24 *)
    let s := if hib w1 =? 0x6a then Some SB else if hib w1 =? 0x6b then Some SW else None in
    match s with
    | Some s =>
      req ((a <? 8) && (r =? 0) && (hib w2 =? 0))
          (if n3 w1 =? 2 then ok (IMovLoad s (EDisp a (sx 24 (lob w2 * 65536 + w3))) (n4 w1)) 8
           else if n3 w1 =? 0xa then ok (IMovStore s (n4 w1) (EDisp a (sx 24 (lob w2 * 65536 + w3)))) 8
           else None)
    | None => None
    end
  else if h =? 0x79 then dec_imm_group SW w0 w1 4
  else if h =? 0x7a then dec_imm_group SL w0 (w1 * 65536 + w2) 6
  else if h =? 0x7b then req (((l =? 0x5c) || (l =? 0xd4)) && (w1 =? 0x598f)) (ok IUnimplemented 4)   (* EEPMOV *)
  else if h =? 0x7c then req ((a <? 8) && (r =? 0)) (dec_bit_mem true (BTMem (EInd a)) w1)
  else if h =? 0x7d then req ((a <? 8) && (r =? 0)) (dec_bit_mem false (BTMem (EInd a)) w1)
  else if h =? 0x7e then dec_bit_mem true (BTMem (EAbs (abs8 l))) w1
  else if h =? 0x7f then dec_bit_mem false (BTMem (EAbs (abs8 l))) w1
  else if n1 w0 =? 8 then ok (IAlu2I AAdd SB l (n2 w0)) 2
  else if n1 w0 =? 9 then ok (IAlu2I AAddx SB l (n2 w0)) 2
  else if n1 w0 =? 0xa then ok (IAlu2I ACmp SB l (n2 w0)) 2
  else if n1 w0 =? 0xb then ok IUnimplemented 2                                             (* SUBX #xx:8,Rd *)
  else if n1 w0 =? 0xc then ok (IAlu2I AOr SB l (n2 w0)) 2
  else if n1 w0 =? 0xd then ok (IAlu2I AXor SB l (n2 w0)) 2
  else if n1 w0 =? 0xe then ok (IAlu2I AAnd SB l (n2 w0)) 2
  else if n1 w0 =? 0xf then ok (IMovImm SB l (n2 w0)) 2
  else None.

(* ------------------------------------------------------------------ architectural state views *)
Definition reg32 (s : cpu) (n : Z) : Z := get_er (er s) n.
Definition set_reg32 (s : cpu) (n v : Z) : cpu := set_regs (set_er (er s) n v) s.
(* 16-bit register field: 0-7 = R0-R7 (low half), 8-15 = E0-E7 (high half) *)
Definition reg16 (s : cpu) (f : Z) : Z :=
  if f <? 8 then reg32 s f mod 65536 else (reg32 s (f - 8) / 65536) mod 65536.
Definition set_reg16 (s : cpu) (f v : Z) : cpu :=
  if f <? 8 then let x := reg32 s f in set_reg32 s f (x - x mod 65536 + v)
  else let x := reg32 s (f - 8) in set_reg32 s (f - 8) (x mod 65536 + v * 65536).
(* 8-bit register field: 0-7 = R0H-R7H (bits 15-8), 8-15 = R0L-R7L (bits 7-0) *)
Definition reg8 (s : cpu) (f : Z) : Z :=
  if f <? 8 then (reg32 s f / 256) mod 256 else reg32 s (f - 8) mod 256.
Definition set_reg8 (s : cpu) (f v : Z) : cpu :=
  if f <? 8 then let x := reg32 s f in set_reg32 s f (x - ((x / 256) mod 256) * 256 + v * 256)
  else let x := reg32 s (f - 8) in set_reg32 s (f - 8) (x - x mod 256 + v).

Definition reg (z : sz) (s : cpu) (f : Z) : Z :=
  match z with SB => reg8 s f | SW => reg16 s f | SL => reg32 s f end.
Definition set_reg (z : sz) (s : cpu) (f v : Z) : cpu :=
  match z with SB => set_reg8 s f v | SW => set_reg16 s f v | SL => set_reg32 s f v end.

(* memory: big-endian composition of bytes; None when any byte is not accessible *)
Definition mem8 (s : cpu) (a : Z) : option Z := bus_read (cbus s) a.
Definition mem_read (z : sz) (s : cpu) (a : Z) : option Z :=
  match z with
  | SB => mem8 s a
  | SW => match mem8 s a, mem8 s (a + 1) with Some b0, Some b1 => Some (b0 * 256 + b1) | _, _ => None end
  | SL => match mem8 s a, mem8 s (a + 1), mem8 s (a + 2), mem8 s (a + 3) with
          | Some b0, Some b1, Some b2, Some b3 => Some (b0 * 16777216 + b1 * 65536 + b2 * 256 + b3)
          | _, _, _, _ => None end
  end.
Definition put8 (s : cpu) (a v : Z) : option cpu :=
  match bus_write (cbus s) a v with Some b => Some (set_bus b s) | None => None end.
Definition obind {A B} (o : option A) (f : A -> option B) : option B := match o with Some a => f a | None => None end.
Definition mem_write (z : sz) (s : cpu) (a v : Z) : option cpu :=
  match z with
  | SB => put8 s a (v mod 256)
  | SW => obind (put8 s a ((v / 256) mod 256)) (fun s1 => put8 s1 (a + 1) (v mod 256))
  | SL => obind (put8 s a ((v / 16777216) mod 256)) (fun s1 =>
          obind (put8 s1 (a + 1) ((v / 65536) mod 256)) (fun s2 =>
          obind (put8 s2 (a + 2) ((v / 256) mod 256)) (fun s3 => put8 s3 (a + 3) (v mod 256))))
  end.

(* effective address (24 bits) and the register side effect of @ERn+ / @-ERn *)
Definition A24 := 16777216.
Definition ea_addr (z : sz) (s : cpu) (e : ea) : Z :=
  match e with
  | EInd r => reg32 s r mod A24
  | EDisp r d => (reg32 s r + d) mod A24
  | EPostInc r => reg32 s r mod A24
  | EPreDec r => (reg32 s r - bytes_of z) mod A24
  | EAbs a => a
  end.
Definition ea_update (z : sz) (s : cpu) (e : ea) : cpu :=
  match e with
  | EPostInc r => set_reg32 s r ((reg32 s r + bytes_of z) mod 4294967296)
  | EPreDec r => set_reg32 s r ((reg32 s r - bytes_of z) mod 4294967296)
  | _ => s
  end.

(* ------------------------------------------------------------------ flags *)
(* CCR bits: I 7, UI 6, H 5, U 4, N 3, Z 2, V 1, C 0 *)
Definition flag (c i : Z) : bool := (c / 2^i) mod 2 =? 1.
Definition set_flag (i : Z) (b : bool) (c : Z) : Z :=
  c - (if flag c i then 2^i else 0) + (if b then 2^i else 0).
Definition fC := 0. Definition fV := 1. Definition fZ := 2. Definition fN := 3. Definition fH := 5. Definition fI := 7.

Definition neg_bit (n r : Z) : bool := 2^(n-1) <=? r.
Definition signed_ok (n x : Z) : bool := (- 2^(n-1) <=? x) && (x <? 2^(n-1)).
Definition set_nz (n r c : Z) : Z := set_flag fZ (r =? 0) (set_flag fN (neg_bit n r) c).
Definition set_hnzvc (n r : Z) (h v cy : bool) (c : Z) : Z :=
  set_flag fC cy (set_flag fV v (set_nz n r (set_flag fH h c))).

Definition alu2_ref (o : alu2) (n a b c : Z) : Z * Z :=
  let q := 2^(n-4) in
  match o with
  | AAdd => let r := (a + b) mod 2^n in
            (r, set_hnzvc n r (q <=? a mod q + b mod q) (negb (signed_ok n (sx n a + sx n b))) (2^n <=? a + b) c)
  | ASub | ACmp => let r := (a - b) mod 2^n in
            (r, set_hnzvc n r (a mod q <? b mod q) (negb (signed_ok n (sx n a - sx n b))) (a <? b) c)
  | AAddx => let ci := if flag c fC then 1 else 0 in
             let r := (a + b + ci) mod 2^n in
             let c1 := set_flag fH (q <=? a mod q + b mod q + ci) c in
             let c2 := set_flag fN (neg_bit n r) c1 in
             let c3 := set_flag fZ (flag c fZ && (r =? 0)) c2 in
             let c4 := set_flag fV (negb (signed_ok n (sx n a + sx n b + ci))) c3 in
             (r, set_flag fC (2^n <=? a + b + ci) c4)
  | AAnd => let r := Z.land a b in (r, set_flag fV false (set_nz n r c))
  | AOr => let r := Z.lor a b in (r, set_flag fV false (set_nz n r c))
  | AXor => let r := Z.lxor a b in (r, set_flag fV false (set_nz n r c))
  end.

Definition alu1_ref (o : alu1) (n a c : Z) : Z * Z :=
  let top := 2^(n-1) in let q := 2^(n-4) in
  let msb := a / top in let lsb := a mod 2 in
  let ci := if flag c fC then 1 else 0 in
  let shift (r : Z) (v cy : bool) := (r, set_flag fC cy (set_flag fV v (set_nz n r c))) in
  match o with
  | UNeg => let r := (0 - a) mod 2^n in
            (r, set_hnzvc n r (0 <? a mod q) (a =? top) (0 <? a) c)
  | UNot => let r := 2^n - 1 - a in (r, set_flag fV false (set_nz n r c))
  | UExtu => let r := a mod 2^(n/2) in (r, set_flag fV false (set_flag fZ (r =? 0) (set_flag fN false c)))
  | UInc1 => let r := (a + 1) mod 2^n in (r, set_flag fV (negb (signed_ok n (sx n a + 1))) (set_nz n r c))
  | UInc2 => let r := (a + 2) mod 2^n in (r, set_flag fV (negb (signed_ok n (sx n a + 2))) (set_nz n r c))
  | UDec1 => let r := (a - 1) mod 2^n in (r, set_flag fV (negb (signed_ok n (sx n a - 1))) (set_nz n r c))
  | UDec2 => let r := (a - 2) mod 2^n in (r, set_flag fV (negb (signed_ok n (sx n a - 2))) (set_nz n r c))
  | UShll => shift ((2 * a) mod 2^n) false (msb =? 1)
  | UShal => let r := (2 * a) mod 2^n in shift r (negb (Bool.eqb (msb =? 1) (neg_bit n r))) (msb =? 1)
  | UShlr => shift (a / 2) false (lsb =? 1)
  | UShar => shift ((sx n a / 2) mod 2^n) false (lsb =? 1)
  | URotl => shift ((2 * a) mod 2^n + msb) false (msb =? 1)
  | URotr => shift (a / 2 + lsb * top) false (lsb =? 1)
  | URotxl => shift ((2 * a) mod 2^n + ci) false (msb =? 1)
  | URotxr => shift (a / 2 + ci * top) false (lsb =? 1)
  end.

(* bit operations on an operand byte v, bit number k (0-7) *)
Definition bitv (v k : Z) : bool := (v / 2^k) mod 2 =? 1.
Definition with_bit (v k : Z) (b : bool) : Z := v - (if bitv v k then 2^k else 0) + (if b then 2^k else 0).
Definition bit_writes (o : bop) : bool := match o with BSet | BNot | BClr | BSt | BISt => true | _ => false end.
Definition bit_ref (o : bop) (v k c : Z) : Z * Z :=
  let b := bitv v k in let cy := flag c fC in
  match o with
  | BSet => (with_bit v k true, c) | BClr => (with_bit v k false, c) | BNot => (with_bit v k (negb b), c)
  | BSt => (with_bit v k cy, c) | BISt => (with_bit v k (negb cy), c)
  | BTst => (v, set_flag fZ (negb b) c)
  | BLd => (v, set_flag fC b c) | BILd => (v, set_flag fC (negb b) c)
  | BAnd => (v, set_flag fC (cy && b) c) | BIAnd => (v, set_flag fC (cy && negb b) c)
  | BOr => (v, set_flag fC (cy || b) c) | BIOr => (v, set_flag fC (cy || negb b) c)
  | BXor => (v, set_flag fC (xorb cy b) c) | BIXor => (v, set_flag fC (xorb cy (negb b)) c)
  end.

(* Bcc condition table *)
Definition cond_ref (cc c : Z) : bool :=
  let C := flag c fC in let Zf := flag c fZ in let N := flag c fN in let V := flag c fV in
  if cc =? 0 then true else if cc =? 1 then false                 (* BRA BRN *)
  else if cc =? 2 then negb (C || Zf) else if cc =? 3 then C || Zf    (* BHI BLS *)
  else if cc =? 4 then negb C else if cc =? 5 then C                  (* BCC BCS *)
  else if cc =? 6 then negb Zf else if cc =? 7 then Zf                (* BNE BEQ *)
  else if cc =? 8 then negb V else if cc =? 9 then V                  (* BVC BVS *)
  else if cc =? 10 then negb N else if cc =? 11 then N                (* BPL BMI *)
  else if cc =? 12 then negb (xorb N V) else if cc =? 13 then xorb N V   (* BGE BLT *)
  else if cc =? 14 then negb (Zf || xorb N V) else Zf || xorb N V.      (* BGT BLE *)

(* ------------------------------------------------------------------ semantics *)
Definition with_pc (v : Z) (s : cpu) : cpu := set_pc v s.
Definition with_ccr (v : Z) (s : cpu) : cpu := set_ccr v s.

(* push a long word: SP := SP - 4 (mod 2^32), store big-endian at the new SP's low 24 bits *)
Definition push32 (s : cpu) (v : Z) : option cpu :=
  let s1 := ea_update SL s (EPreDec 7) in mem_write SL s1 (reg32 s1 7 mod A24) v.
Definition pop32 (s : cpu) : option (Z * cpu) :=
  obind (mem_read SL s (reg32 s 7 mod A24)) (fun v => Some (v, ea_update SL s (EPostInc 7))).

(* target of JMP / JSR *)
Definition jump_target (s : cpu) (t : jtarget) : option Z :=
  match t with
  | JReg r => Some (reg32 s r mod A24)
  | JAbs a => Some a
  | JInd aa => obind (mem_read SL s aa) (fun v => Some (v mod A24))
  end.

(* exception entry through vector number v, return address ret *)
Definition enter_ref (s : cpu) (v ret : Z) : option cpu :=
  obind (push32 s (ccr s * A24 + ret)) (fun s1 =>
  obind (mem_read SL s1 (4 * v)) (fun d =>
  Some (with_pc (d mod A24) (with_ccr (set_flag fI true (ccr s1)) s1)))).

Definition sem_ref (i : insn) (len : Z) (s : cpu) : option cpu :=
  let next := pc s + len in
  match i with
  | IMovRR z rs rd =>
    let v := reg z s rs in
    Some (with_pc next (with_ccr (set_flag fV false (set_nz (bits_of z) v (ccr s))) (set_reg z s rd v)))
  | IMovImm z imm rd =>
    Some (with_pc next (with_ccr (set_flag fV false (set_nz (bits_of z) imm (ccr s))) (set_reg z s rd imm)))
  | IMovLoad z e rd =>
    obind (mem_read z s (ea_addr z s e)) (fun v =>
    let s1 := ea_update z s e in
    Some (with_pc next (with_ccr (set_flag fV false (set_nz (bits_of z) v (ccr s))) (set_reg z s1 rd v))))
  | IMovStore z rs e =>
    let v := reg z s rs in
    let s1 := ea_update z s e in
    obind (mem_write z s1 (ea_addr z s e) v) (fun s2 =>
    Some (with_pc next (with_ccr (set_flag fV false (set_nz (bits_of z) v (ccr s))) s2)))
  | IAlu2R o z rs rd =>
    let '(r, c) := alu2_ref o (bits_of z) (reg z s rd) (reg z s rs) (ccr s) in
    Some (with_pc next (with_ccr c (match o with ACmp => s | _ => set_reg z s rd r end)))
  | IAlu2I o z imm rd =>
    let '(r, c) := alu2_ref o (bits_of z) (reg z s rd) imm (ccr s) in
    Some (with_pc next (with_ccr c (match o with ACmp => s | _ => set_reg z s rd r end)))
  | IAlu1 o z rd =>
    let '(r, c) := alu1_ref o (bits_of z) (reg z s rd) (ccr s) in
    Some (with_pc next (with_ccr c (set_reg z s rd r)))
  | IAdds k rd => Some (with_pc next (set_reg32 s rd ((reg32 s rd + k) mod 4294967296)))
  | ISubs k rd => Some (with_pc next (set_reg32 s rd ((reg32 s rd - k) mod 4294967296)))
  | IMulxu SB rs rd => Some (with_pc next (set_reg16 s rd ((reg16 s rd mod 256) * reg8 s rs)))
  | IMulxu _ rs rd => Some (with_pc next (set_reg32 s rd ((reg32 s rd mod 65536) * reg16 s rs)))
  | IDivxu SB rs rd =>
    let d := reg8 s rs in let n := reg16 s rd in
    if (d =? 0) || (256 <=? n / d) then None   (* division by zero / overflow: result undefined *)
    else Some (with_pc next (with_ccr (set_flag fZ false (set_flag fN (neg_bit 8 d) (ccr s)))
                            (set_reg16 s rd ((n mod d) * 256 + n / d))))
  | IDivxu _ rs rd =>
    let d := reg16 s rs in let n := reg32 s rd in
    if (d =? 0) || (65536 <=? n / d) then None
    else Some (with_pc next (with_ccr (set_flag fZ false (set_flag fN (neg_bit 16 d) (ccr s)))
                            (set_reg32 s rd ((n mod d) * 65536 + n / d))))
  | IBit o b t =>
    let k := match b with BImm k => k | BReg rn => reg8 s rn mod 8 end in
    match t with
    | BTReg rd =>
      let '(v, c) := bit_ref o (reg8 s rd) k (ccr s) in
      Some (with_pc next (with_ccr c (if bit_writes o then set_reg8 s rd v else s)))
    | BTMem e =>
      let a := ea_addr SB s e in
      obind (mem8 s a) (fun v0 =>
      let '(v, c) := bit_ref o v0 k (ccr s) in
      if bit_writes o then obind (put8 s a v) (fun s1 => Some (with_pc next (with_ccr c s1)))
      else Some (with_pc next (with_ccr c s)))
    end
  | IBcc cc d => Some (with_pc (if cond_ref cc (ccr s) then next + d else next) s)
  | IJmp t => obind (jump_target s t) (fun a => Some (with_pc a s))
  | IBsr d => obind (push32 s next) (fun s1 => Some (with_pc (next + d) s1))
  (* manual: PC -> @-SP, then EAd -> PC; the register form reads its target after the push (this matters for @ER7 only) *)
  | IJsr (JReg r) => obind (push32 s next) (fun s1 => Some (with_pc (reg32 s1 r mod A24) s1))
  | IJsr t => obind (jump_target s t) (fun a => obind (push32 s next) (fun s1 => Some (with_pc a s1)))
  | IRts => obind (pop32 s) (fun '(v, s1) => Some (with_pc (v mod A24) s1))
  | IRte => obind (pop32 s) (fun '(v, s1) => Some (with_pc (v mod A24) (with_ccr (v / A24) s1)))
  | ITrapa n => enter_ref (with_pc next s) (8 + n) next
  | IStcB rd => Some (with_pc next (set_reg8 s rd (ccr s)))
  | IStcW e =>
    (* the CCR is stored as a word at the effective address; the byte values are left open here
       (compared only through the set of touched bytes), see DESIGN.md *)
    let s1 := ea_update SW s e in
    obind (mem_write SW s1 (ea_addr SW s e) (ccr s)) (fun s2 => Some (with_pc next s2))
  | IUnimplemented => None
  end.

(* ------------------------------------------------------------------ which bytes an instruction may touch *)
Definition is_branch (i : insn) : bool :=
  match i with IBcc _ _ | IJmp _ | IBsr _ | IJsr _ | IRts | IRte | ITrapa _ => true | _ => false end.
