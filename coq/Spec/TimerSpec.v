(* Reference model of 8-bit timer channel 0 (property C17): one count of TCNT, and the passage of elapsed
   states one state at a time (the tick-by-tick reference). *)
From Coq Require Import Bool ZArith List.
Import ListNotations.
Open Scope bool_scope. Open Scope Z_scope.

Record tmr := mkTmr {
  tcnt : Z; tcsr : Z; tcora : Z; tcorb : Z;
  cmieb : bool; cmiea : bool; ovie : bool;     (* TCR bits 7, 6, 5 *)
  cclr : Z;                                    (* TCR bits 4-3: 0 none, 1 compare match A, 2 compare match B, 3 external *)
  divisor : Z;                                 (* 0 = no clock selected; 8, 64, 8192 *)
  phase : Z                                    (* states elapsed in the current prescaler period, 0 <= phase < divisor *)
}.

(* one count: flags are set on compare match / overflow and never cleared here; the counter is cleared by the
   selected compare match; one request per event iff enabled (vectors 36 CMIA, 37 CMIB, 39 OVI) *)
Definition tick_ref (t : tmr) : tmr * list Z :=
  let n := (tcnt t + 1) mod 256 in
  let ovf := tcnt t =? 255 in
  let ma := n =? tcora t in
  let mb := n =? tcorb t in
  let sr := Z.lor (Z.lor (Z.lor (tcsr t) (if ma then 0x40 else 0)) (if mb then 0x80 else 0)) (if ovf then 0x20 else 0) in
  let n' := if (ma && (cclr t =? 1)) || (mb && (cclr t =? 2)) then 0 else n in
  (mkTmr n' sr (tcora t) (tcorb t) (cmieb t) (cmiea t) (ovie t) (cclr t) (divisor t) (phase t),
   (if ma && cmiea t then [36] else []) ++ (if mb && cmieb t then [37] else []) ++ (if ovf && ovie t then [39] else [])).

(* one elapsed state *)
Definition state_ref (t : tmr) : tmr * list Z :=
  if divisor t =? 0 then (t, [])
  else if phase t + 1 =? divisor t then
    let '(t1, rq) := tick_ref t in
    (mkTmr (tcnt t1) (tcsr t1) (tcora t1) (tcorb t1) (cmieb t1) (cmiea t1) (ovie t1) (cclr t1) (divisor t1) 0, rq)
  else (mkTmr (tcnt t) (tcsr t) (tcora t) (tcorb t) (cmieb t) (cmiea t) (ovie t) (cclr t) (divisor t) (phase t + 1), []).

Fixpoint states_ref (n : nat) (t : tmr) : tmr * list Z :=
  match n with
  | O => (t, [])
  | S k => let '(t1, r1) := state_ref t in let '(t2, r2) := states_ref k t1 in (t2, r1 ++ r2)
  end.

(* CPU write of TCR: enables, clear source, clock select; a newly selected clock restarts the prescaler *)
Definition write_tcr_ref (t : tmr) (v : Z) : tmr :=
  let cks := v mod 8 in
  let d := if cks =? 1 then 8 else if cks =? 2 then 64 else if cks =? 3 then 8192 else 0 in
  mkTmr (tcnt t) (tcsr t) (tcora t) (tcorb t)
        ((v / 128) mod 2 =? 1) ((v / 64) mod 2 =? 1) ((v / 32) mod 2 =? 1) ((v / 8) mod 4)
        d (if d =? divisor t then phase t else 0).

(* the side condition of the property: where the manual leaves simultaneous events open *)
Definition side_ok (t : tmr) : bool :=
  if (cclr t =? 1) || (cclr t =? 2) then negb (tcora t =? tcorb t) && negb (tcora t =? 0) && negb (tcorb t =? 0) else true.
