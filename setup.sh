#!/bin/sh
# One-time setup after a fresh restore (offline): build the Coq development, extract and
# compile model_runner, warm the cargo target directories used by the checks.
set -e
cd "$(dirname "$0")"
export CARGO_NET_OFFLINE=true
mkdir -p .cache
( cd coq && coq_makefile -f _CoqProject $(find . -name '*.v' | sort) -o Makefile >/dev/null && timeout 7200 make -j16 ) 2>&1 | tail -40
python3 - <<'PY'
import sys, os
sys.path.insert(0, os.path.join(os.getcwd(), "harness"))
import check
ok, msg = check.build_runner()
print("runner:", ok, msg)
for prof in ("rel", "chk"):
    exe, err = check.build_repo(prof)
    print("repo build", prof, "ok" if exe else "FAILED\n" + err)
    if not exe:
        sys.exit(1)
sys.exit(0 if ok else 1)
PY
